/* ADT model of std::__cxx11::basic_string<char> (prototype).  The 32-byte object holds
   { u8* data (always a separate heap buffer of SCAP bytes, NUL terminated); u64 len; u64 unused[2] }.
   All pointers are u8* (ir2c convention). */
#ifndef SCAP
#define SCAP 24
#endif
#define S_P(s)   (*(u8**)(s))
#define S_LEN(s) (*(u64*)((u8*)(s) + 8))
#define STR(name) M__ZNSt7__cxx1112basic_stringIcSt11char_traitsIcESaIcEE##name
#define STRK(name) M__ZNKSt7__cxx1112basic_stringIcSt11char_traitsIcESaIcEE##name
static void ir_throw_std(void) { __ir_exc_pending = 1; __ir_exc_obj = 0; __ir_exc_ti = 0; }
static void s_init(u8* s) { u8* b = IR_ALLOC(SCAP); b[0] = 0; S_P(s) = b; S_LEN(s) = 0; }
static void s_set(u8* s, const u8* src, u64 n) { IR_ASSERT(n < SCAP, "BOUND: string longer than SCAP"); IR_ASSUME(n < SCAP); u8* d = S_P(s);
#ifdef S_NUMERIC_ATOMS
  /* numeric atoms (models/pml.c) are copied as one word so that the value stays one term */
  if (n == 9 && (src[8] == 1 || src[8] == 2)) { *(u64*)d = *(const u64*)src; d[8] = src[8]; d[9] = 0; *(u64*)(d + 16) = *(const u64*)(src + 16); *(u64*)(d + 24) = *(const u64*)(src + 24); S_LEN(s) = 9; return; }
#endif
  for (u64 i = 0; i < n; i++) d[i] = src[i]; d[n] = 0; S_LEN(s) = n; }
static u64 c_len(const u8* c) { u64 n = 0; while (c[n]) n++; return n; }
void STR(C2Ev)(u8* s) { s_init(s); }
void STR(C2ERKS3_)(u8* s, u8* alloc) { s_init(s); }
void STR(C2EPKcRKS3_)(u8* s, u8* c, u8* alloc) { s_init(s); s_set(s, c, c_len(c)); }
void STR(C2ERKS4_)(u8* s, u8* o) { s_init(s); s_set(s, S_P(o), S_LEN(o)); }
void STR(C2EOS4_)(u8* s, u8* o) { S_P(s) = S_P(o); S_LEN(s) = S_LEN(o); s_init(o); }
void STR(D2Ev)(u8* s) { IR_FREE(S_P(s)); }
u64 STRK(4sizeEv)(u8* s) { return S_LEN(s); }
u64 STRK(6lengthEv)(u8* s) { return S_LEN(s); }
u8 STRK(5emptyEv)(u8* s) { return S_LEN(s) == 0; }
u8* STRK(5beginEv)(u8* s) { return S_P(s); }
u8* STRK(3endEv)(u8* s) { return S_P(s) + S_LEN(s); }
u8* STRK(4dataEv)(u8* s) { return S_P(s); }
u8* STRK(5c_strEv)(u8* s) { return S_P(s); }
u8* STRK(ixEm)(u8* s, u64 i) { return S_P(s) + i; }
u8* STR(ixEm)(u8* s, u64 i) { return S_P(s) + i; }
void STR(7reserveEm)(u8* s, u64 n) { IR_ASSERT(n < SCAP, "BOUND: reserve beyond SCAP"); }
void STRK(13get_allocatorEv)(u8* ret, u8* s) { }
u8* STR(aSEOS4_)(u8* s, u8* o) { if (s != o) { IR_FREE(S_P(s)); S_P(s) = S_P(o); S_LEN(s) = S_LEN(o); s_init(o); } return s; }
u8* STR(aSERKS4_)(u8* s, u8* o) { if (s != o) s_set(s, S_P(o), S_LEN(o)); return s; }
u8* STR(aSEPKc)(u8* s, u8* c) { s_set(s, c, c_len(c)); return s; }
u8* STR(6appendEPKcm)(u8* s, u8* c, u64 n) { u64 l = S_LEN(s); IR_ASSERT(l + n < SCAP, "BOUND: append beyond SCAP"); IR_ASSUME(l + n < SCAP); u8* d = S_P(s); for (u64 i = 0; i < n; i++) d[l + i] = c[i]; d[l + n] = 0; S_LEN(s) = l + n; return s; }
u8* STR(6appendERKS4_)(u8* s, u8* o) { return STR(6appendEPKcm)(s, S_P(o), S_LEN(o)); }
u8* STR(pLEPKc)(u8* s, u8* c) { return STR(6appendEPKcm)(s, c, c_len(c)); }
u8* STR(pLEc)(u8* s, u8 c) { return STR(6appendEPKcm)(s, &c, 1); }
u8* STR(pLERKS4_)(u8* s, u8* o) { return STR(6appendEPKcm)(s, S_P(o), S_LEN(o)); }
void STRK(6substrEmm)(u8* ret, u8* s, u64 pos, u64 n) {
  u64 l = S_LEN(s);
  if (pos > l) { ir_throw_std(); return; }
  u64 r = l - pos; if (n < r) r = n;
  s_init(ret); s_set(ret, S_P(s) + pos, r);
}
static u64 s_find(u8* s, const u8* nd, u64 pos, u64 n) {
  u64 len = S_LEN(s); u8* p = S_P(s);
  if (n == 0) return pos <= len ? pos : (u64)-1;
  if (pos >= len) return (u64)-1;
  for (u64 i = pos; i + n <= len; i++) { u64 k = 0; while (k < n && p[i + k] == nd[k]) k++; if (k == n) return i; }
  return (u64)-1;
}
u64 STRK(4findEPKcmm)(u8* s, u8* nd, u64 pos, u64 n) { return s_find(s, nd, pos, n); }
u64 STRK(4findEPKcm)(u8* s, u8* nd, u64 pos) { return s_find(s, nd, pos, c_len(nd)); }
u64 STRK(4findERKS4_m)(u8* s, u8* o, u64 pos) { return s_find(s, S_P(o), pos, S_LEN(o)); }
u64 STRK(4findEcm)(u8* s, u8 c, u64 pos) { return s_find(s, &c, pos, 1); }
/* locale / ctype<char>: the "C" locale */
void M__ZNSt6localeC1Ev(u8* l) {}
void M__ZNSt6localeC1ERKS_(u8* l, u8* o) {}
void M__ZNSt6localeD1Ev(u8* l) {}
static u8 ctype_toupper(u8* self, u8 c) { return (c >= 'a' && c <= 'z') ? (u8)(c - 32) : c; }
static u8 ctype_tolower(u8* self, u8 c) { return (c >= 'A' && c <= 'Z') ? (u8)(c + 32) : c; }
static u8* ctype_vtbl[8] = { 0, 0, (u8*)ctype_toupper, 0, (u8*)ctype_tolower, 0, 0, 0 };
static struct { u8* vptr; } fake_ctype = { (u8*)ctype_vtbl };
u8* M__ZSt9use_facetISt5ctypeIcEERKT_RKSt6locale(u8* loc) { return (u8*)&fake_ctype; }
u32 M_isspace(u32 c_) { int c = (int)c_; return c == ' ' || (c >= 9 && c <= 13); }


u8* M__Znwm(u64 n) { return IR_ALLOC(n); }
void M__ZdlPv(u8* p) { IR_FREE(p); }
u32 M_tolower(u32 c_) { int c = (int)c_; return (c >= 'A' && c <= 'Z') ? (u32)(c + 32) : (u32)c; }
u32 M_toupper(u32 c_) { int c = (int)c_; return (c >= 'a' && c <= 'z') ? (u32)(c - 32) : (u32)c; }
u32 M_memcmp(u8* a, u8* b, u64 n) { for (u64 i = 0; i < n; i++) { if (a[i] != b[i]) return a[i] < b[i] ? (u32)-1 : 1u; } return 0; }
u64 M_strlen(u8* s) { return c_len(s); }
u8* M_memchr(u8* s, u32 c, u64 n) { for (u64 i = 0; i < n; i++) if (s[i] == (u8)c) return s + i; return 0; }
/* ---- iostreams: the first word of every stream (sub-)object points to a heap ADT string that
   holds everything written so far.  basic_stringstream: istream at +0, ostream at +16. */
#define OS_BUF(os) (*(u8**)(os))
static u8* strm_newbuf(void) { u8* b = IR_ALLOC(32); s_init(b); return b; }
void M_ss_ctor(u8* ss) { u8* b = strm_newbuf(); *(u8**)ss = b; *(u8**)(ss + 16) = b; }
void M_ss_dtor(u8* ss) { u8* b = *(u8**)ss; IR_FREE(S_P(b)); IR_FREE(b); }
void M_ss_str(u8* ret, u8* ss) { u8* b = *(u8**)ss; s_init(ret); s_set(ret, S_P(b), S_LEN(b)); }
void M_oss_ctor(u8* ss) { *(u8**)ss = strm_newbuf(); }
void M_oss_dtor(u8* ss) { u8* b = *(u8**)ss; IR_FREE(S_P(b)); IR_FREE(b); }
void M_oss_str(u8* ret, u8* ss) { u8* b = *(u8**)ss; s_init(ret); s_set(ret, S_P(b), S_LEN(b)); }
u8* M_os_insert(u8* os, u8* c, u64 n) { STR(6appendEPKcm)(OS_BUF(os), c, n); return os; }
u8* M_os_ls_cstr(u8* os, u8* c) { STR(6appendEPKcm)(OS_BUF(os), c, c_len(c)); return os; }
u8* M_os_ls_char(u8* os, u8 c) { STR(6appendEPKcm)(OS_BUF(os), &c, 1); return os; }
u8* M_os_ls_str(u8* os, u8* s) { STR(6appendEPKcm)(OS_BUF(os), S_P(s), S_LEN(s)); return os; }
u8* STR(6appendEPKc)(u8* s, u8* c) { return STR(6appendEPKcm)(s, c, c_len(c)); }
u8* STR(6insertEmPKc)(u8* s, u64 pos, u8* c) {
  u64 l = S_LEN(s), n = c_len(c);
  if (pos > l) { ir_throw_std(); return s; }
  IR_ASSERT(l + n < SCAP, "BOUND: insert beyond SCAP"); IR_ASSUME(l + n < SCAP);
  u8* d = S_P(s);
  for (u64 i = l; i > pos; i--) d[i - 1 + n] = d[i - 1];
  for (u64 i = 0; i < n; i++) d[pos + i] = c[i];
  d[l + n] = 0; S_LEN(s) = l + n; return s;
}
