/* uscxml::Event for the engines ("we do not care about the event's representation", FastMicroStep.h):
 * only name (std::string at offset 32) is kept; raw (offset 0) is initialised empty. */
void M_ev_ctor(u8* e) { s_init(e); s_init(e + 32); *(u32*)(e + 64) = 1; }
void M_ev_copy(u8* e, u8* o) { s_init(e); s_init(e + 32); s_set(e + 32, S_P(o + 32), S_LEN(o + 32)); *(u32*)(e + 64) = *(u32*)(o + 64); }
u8* M_ev_assign(u8* e, u8* o) { if (e != o) s_set(e + 32, S_P(o + 32), S_LEN(o + 32)); return e; }
void M_ev_dtor(u8* e) { IR_FREE(S_P(e)); IR_FREE(S_P(e + 32)); }
