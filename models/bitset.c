/* ADT model of boost::dynamic_bitset<unsigned long> for at most 64 bits.  The 32-byte object
 * ({std::vector<ulong> m_bits; size_t m_num_bits}) holds the bits in word 0 and the size in word 3.
 * boost itself is a library, not the subject; the model is validated against the real class by the
 * translation validation of every unit that uses it. */
#define BS_W(b) (*(u64*)(b))
#define BS_N(b) (*(u64*)((u8*)(b) + 24))
static u64 bs_mask(u64 n) { return n >= 64 ? ~(u64)0 : (((u64)1 << n) - 1); }
void M_bs_ctor_alloc(u8* b, u8* a) { BS_W(b) = 0; *(u64*)(b + 8) = 0; *(u64*)(b + 16) = 0; BS_N(b) = 0; }
void M_bs_ctor_nv(u8* b, u64 n, u64 v, u8* a) { IR_ASSERT(n <= 64, "BOUND: bitset wider than 64"); IR_ASSUME(n <= 64); *(u64*)(b + 8) = 0; *(u64*)(b + 16) = 0; BS_N(b) = n; BS_W(b) = v & bs_mask(n); }
void M_bs_copy(u8* b, u8* o) { BS_W(b) = BS_W(o); *(u64*)(b + 8) = 0; *(u64*)(b + 16) = 0; BS_N(b) = BS_N(o); }
void M_bs_dtor(u8* b) {}
u8* M_bs_assign(u8* b, u8* o) { BS_W(b) = BS_W(o); BS_N(b) = BS_N(o); return b; }
void M_bs_resize(u8* b, u64 n, u8 v) { IR_ASSERT(n <= 64, "BOUND: bitset wider than 64"); IR_ASSUME(n <= 64);
  u64 old = BS_N(b); u64 w = BS_W(b); if (n > old && v) w |= bs_mask(n) & ~bs_mask(old); BS_W(b) = w & bs_mask(n); BS_N(b) = n; }
u8* M_bs_reset(u8* b) { BS_W(b) = 0; return b; }
u8* M_bs_flip(u8* b) { BS_W(b) = ~BS_W(b) & bs_mask(BS_N(b)); return b; }
void M_bs_not(u8* ret, u8* b) { M_bs_copy(ret, b); M_bs_flip(ret); }
u8* M_bs_or(u8* b, u8* o) { IR_ASSERT(BS_N(b) == BS_N(o), "dynamic_bitset: size mismatch in |="); BS_W(b) |= BS_W(o); return b; }
u8* M_bs_and(u8* b, u8* o) { IR_ASSERT(BS_N(b) == BS_N(o), "dynamic_bitset: size mismatch in &="); BS_W(b) &= BS_W(o); return b; }
u8* M_bs_xor(u8* b, u8* o) { IR_ASSERT(BS_N(b) == BS_N(o), "dynamic_bitset: size mismatch in ^="); BS_W(b) ^= BS_W(o); return b; }
u8 M_bs_intersects(u8* b, u8* o) { return (BS_W(b) & BS_W(o)) != 0; }
u8 M_bs_any(u8* b) { return BS_W(b) != 0; }
u8 M_bs_none(u8* b) { return BS_W(b) == 0; }
u64 M_bs_count(u8* b) { u64 w = BS_W(b); w = w - ((w >> 1) & 0x5555555555555555ull); w = (w & 0x3333333333333333ull) + ((w >> 2) & 0x3333333333333333ull); w = (w + (w >> 4)) & 0x0f0f0f0f0f0f0f0full; return (w * 0x0101010101010101ull) >> 56; }
u64 M_bs_size(u8* b) { return BS_N(b); }
static u64 bs_ctz(u64 x) { /* x != 0: index of the lowest set bit, loop free */
  u64 n = 0;
  if (!(x & 0xffffffffull)) { n += 32; x >>= 32; }
  if (!(x & 0xffffull)) { n += 16; x >>= 16; }
  if (!(x & 0xffull)) { n += 8; x >>= 8; }
  if (!(x & 0xfull)) { n += 4; x >>= 4; }
  if (!(x & 0x3ull)) { n += 2; x >>= 2; }
  if (!(x & 0x1ull)) { n += 1; }
  return n; }
u64 M_bs_find_next_from(u64 w, u64 from) { if (from >= 64) return ~(u64)0; u64 x = w & ~bs_mask(from); return x ? bs_ctz(x) : ~(u64)0; }
u64 M_bs_find_first(u8* b) { return M_bs_find_next_from(BS_W(b), 0); }
u64 M_bs_find_next(u8* b, u64 pos) { if (pos >= BS_N(b) - 1 || BS_N(b) == 0) return ~(u64)0; return M_bs_find_next_from(BS_W(b), pos + 1); }
/* non-const operator[]: returns reference { block_type& m_block; block_type m_mask } */
R_bs_index M_bs_index(u8* b, u64 pos) { IR_ASSERT(pos < BS_N(b), "dynamic_bitset: index out of range"); R_bs_index r; r.f0 = b; r.f1 = (u64)1 << (pos & 63); return r; }
u8 M_bs_test(u8* b, u64 pos) { IR_ASSERT(pos < BS_N(b), "dynamic_bitset: index out of range"); return (BS_W(b) >> (pos & 63)) & 1; }
u8 M_bs_less(u8* a, u8* b) { /* boost compares from the most significant block/bit downwards (sizes equal here) */
  if (BS_N(a) != BS_N(b)) return BS_N(a) < BS_N(b) ? 1 : 0; return BS_W(a) < BS_W(b); }
u8 M_bs_eq(u8* a, u8* b) { return BS_N(a) == BS_N(b) && BS_W(a) == BS_W(b); }
