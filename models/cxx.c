/* PROBE models: EH runtime, list/rb-tree leaves, misc no-ops */
/* one exception in flight at a time in the single-threaded units we lower: a single static buffer keeps the pointer constant */
static u64 ir_exc_buf[24];
u8* M___cxa_allocate_exception(u64 n) { IR_ASSERT(n <= sizeof ir_exc_buf, "BOUND: exception object larger than the model buffer"); return (u8*)ir_exc_buf; }
void M___cxa_free_exception(u8* p) { }
void M___cxa_throw(u8* obj, u8* ti, u8* dtor) { __ir_exc_pending = 1; __ir_exc_obj = obj; __ir_exc_ti = __ir_ti_of(ti); }
u8* M___cxa_begin_catch(u8* obj) { __ir_exc_pending = 0; if (__ir_caught_n < 4) { __ir_caught_obj[__ir_caught_n] = obj; __ir_caught_ti[__ir_caught_n] = __ir_exc_ti; } __ir_caught_n++; return obj; }
void M___cxa_end_catch(void) { if (__ir_caught_n > 0) __ir_caught_n--; }
u8* M___cxa_get_exception_ptr(u8* obj) { return obj; }
void M___cxa_rethrow(void) { IR_ASSERT(__ir_caught_n > 0 && __ir_caught_n <= 4, "rethrow without handler"); __ir_exc_pending = 1; __ir_exc_obj = __ir_caught_obj[__ir_caught_n - 1]; __ir_exc_ti = __ir_caught_ti[__ir_caught_n - 1]; }
void M___cxa_pure_virtual(void) { IR_ASSERT(0, "pure virtual called"); IR_ASSUME(0); }
void M__ZSt9terminatev(void) { IR_ASSERT(0, "std::terminate called"); IR_ASSUME(0); }
void M_abort(void) { IR_ASSERT(0, "abort called"); IR_ASSUME(0); }
void M__ZSt17__throw_bad_allocv(void) { ir_throw_std(); }
void M__ZSt28__throw_bad_array_new_lengthv(void) { ir_throw_std(); }
void M__ZSt20__throw_length_errorPKc(u8* m) { ir_throw_std(); }
void M__ZSt20__throw_out_of_rangePKc(u8* m) { ir_throw_std(); }
void M__ZNSaIcEC1Ev(u8* a) {} void M__ZNSaIcEC1ERKS_(u8* a, u8* b) {} void M__ZNSaIcED1Ev(u8* a) {}
/* std::list node base { next @0, prev @8 } and rb-tree node base { color @0 (u32), parent @8, left @16, right @24 }.
   All accesses are scalar loads/stores at byte offsets (never through a struct-typed pointer): only those are
   folded by the symbolic executor on the word-typed allocation pools. */
#define L_NEXT(p) (*(u8**)((u8*)(p)))
#define L_PREV(p) (*(u8**)((u8*)(p) + 8))
void M__ZNSt8__detail15_List_node_base7_M_hookEPS0_(u8* s, u8* p) { L_NEXT(s) = p; L_PREV(s) = L_PREV(p); L_NEXT(L_PREV(p)) = s; L_PREV(p) = s; }
void M__ZNSt8__detail15_List_node_base9_M_unhookEv(u8* s) { u8* n = L_NEXT(s); u8* q = L_PREV(s); L_NEXT(q) = n; L_PREV(n) = q; }
void M__ZNSt8__detail15_List_node_base11_M_transferEPS0_S1_(u8* s, u8* first, u8* last) {
  if (s != last) { L_NEXT(L_PREV(last)) = s; L_NEXT(L_PREV(first)) = last; L_NEXT(L_PREV(s)) = first;
    u8* tmp = L_PREV(s); L_PREV(s) = L_PREV(last); L_PREV(last) = L_PREV(first); L_PREV(first) = tmp; } }
#define T_COLOR(p) (*(u32*)((u8*)(p)))
#define T_PAR(p) (*(u8**)((u8*)(p) + 8))
#define T_LEFT(p) (*(u8**)((u8*)(p) + 16))
#define T_RIGHT(p) (*(u8**)((u8*)(p) + 24))
u8* M__ZSt18_Rb_tree_incrementPSt18_Rb_tree_node_base(u8* x) {
  if (T_RIGHT(x)) { x = T_RIGHT(x); while (T_LEFT(x)) x = T_LEFT(x); }
  else { u8* y = T_PAR(x); while (x == T_RIGHT(y)) { x = y; y = T_PAR(y); } if (T_RIGHT(x) != y) x = y; }
  return x; }
u8* M__ZSt18_Rb_tree_incrementPKSt18_Rb_tree_node_base(u8* x) { return M__ZSt18_Rb_tree_incrementPSt18_Rb_tree_node_base(x); }
u8* M__ZSt18_Rb_tree_decrementPSt18_Rb_tree_node_base(u8* x) {
  if (T_COLOR(x) == 0 && T_PAR(T_PAR(x)) == x) x = T_RIGHT(x);
  else if (T_LEFT(x)) { u8* y = T_LEFT(x); while (T_RIGHT(y)) y = T_RIGHT(y); x = y; }
  else { u8* y = T_PAR(x); while (x == T_LEFT(y)) { x = y; y = T_PAR(y); } x = y; }
  return x; }
void M__ZSt29_Rb_tree_insert_and_rebalancebPSt18_Rb_tree_node_baseS0_RS_(u8 left, u8* x, u8* p, u8* h) {
  T_PAR(x) = p; T_LEFT(x) = 0; T_RIGHT(x) = 0; T_COLOR(x) = 1;
  if (left) { T_LEFT(p) = x; if (p == h) { T_PAR(h) = x; T_RIGHT(h) = x; } else if (p == T_LEFT(h)) T_LEFT(h) = x; }
  else { T_RIGHT(p) = x; if (p == T_RIGHT(h)) T_RIGHT(h) = x; }
  /* no rebalancing: an unbalanced BST is observationally the same container */
}
/* BST delete without rebalancing */
u8* M__ZSt28_Rb_tree_rebalance_for_erasePSt18_Rb_tree_node_baseRS_(u8* z, u8* h) {
  u8* y = z; u8* x = 0;
  if (T_LEFT(y) == 0) x = T_RIGHT(y); else if (T_RIGHT(y) == 0) x = T_LEFT(y); else { y = T_RIGHT(y); while (T_LEFT(y)) y = T_LEFT(y); x = T_RIGHT(y); }
  if (y != z) { T_PAR(T_LEFT(z)) = y; T_LEFT(y) = T_LEFT(z);
    if (y != T_RIGHT(z)) { if (x) T_PAR(x) = T_PAR(y); T_LEFT(T_PAR(y)) = x; T_RIGHT(y) = T_RIGHT(z); T_PAR(T_RIGHT(z)) = y; }
    if (T_PAR(h) == z) T_PAR(h) = y; else if (T_LEFT(T_PAR(z)) == z) T_LEFT(T_PAR(z)) = y; else T_RIGHT(T_PAR(z)) = y;
    T_PAR(y) = T_PAR(z); y = z;
  } else { if (x) T_PAR(x) = T_PAR(y);
    if (T_PAR(h) == z) T_PAR(h) = x; else if (T_LEFT(T_PAR(z)) == z) T_LEFT(T_PAR(z)) = x; else T_RIGHT(T_PAR(z)) = x;
    if (T_LEFT(h) == z) { if (T_RIGHT(z) == 0) T_LEFT(h) = T_PAR(z); else { u8* m = x; while (T_LEFT(m)) m = T_LEFT(m); T_LEFT(h) = m; } }
    if (T_RIGHT(h) == z) { if (T_LEFT(z) == 0) T_RIGHT(h) = T_PAR(z); else { u8* m = x; while (T_RIGHT(m)) m = T_RIGHT(m); T_RIGHT(h) = m; } }
  }
  return y; }
u8* M_malloc_(u64 n) { return IR_ALLOC(n); }
void M_free_(u8* p) { IR_FREE(p); }
void M_dlsized(u8* p, u64 n) { IR_FREE(p); }
u32 M___cxa_guard_acquire(u8* g) { if (*g) return 0; return 1; }
void M___cxa_guard_release(u8* g) { *g = 1; }
u32 M___cxa_atexit(u8* f, u8* a, u8* d) { return 0; }
