/* C17: "numeric atoms".  uscxml::Data carries every integer as its decimal text (toStr<int>) and reads it back with
 * strTo<int> (iostreams).  Decimal formatting of a symbolic int is a /10 digit loop that no back end here decides in
 * useful time, and it is not what C17 is about, so the pair is replaced by an abstract data type:
 *   toStr(v)  ->  string of length 9: the 8 raw bytes of (i64)v (one aligned word) followed by a kind byte
 *                 (1: produced from an int/bool, 2: produced from a long/unsigned);
 *   strTo<T>(s) -> the value back if s is a numeric atom, otherwise a concrete decimal parse of s
 *                  (leading blanks, sign, digits; no digits -> 0; out of range -> clamped, as C++11 num_get does).
 * Sound for everything the evaluator does with such strings: copy, size()/empty(), equality and compare() against
 * other atoms or literals ("true", "false", ""): two decimal texts are equal iff the integers are, a decimal text is
 * never empty and never equals a literal that starts with a letter; 0x01 cannot occur in a literal.  Only the
 * *sign* of compare() between two different numeric atoms is unspecified (nothing in the evaluator uses it). */
#define NUM_I32 1   /* value is a sign-extended int (toStr<int>, toStr<bool>): the common case, everything folds */
#define NUM_I64 2   /* value is any 64-bit integer (toStr<long>, toStr<unsigned>) */
/* I32 atoms keep the value as one 32-bit word at offset 0 (so that strTo<int>(toStr<int>(v)) is syntactically v and the
   "Operand is not integer" re-check in dataToInt folds away during symbolic execution); I64 atoms use all 8 bytes */
/* CBMC's symbolic execution propagates constants only: "strTo<int>(atom) ... atom.compare(toStr(value)) != 0" in
   dataToInt stays a symbolic branch although it is a tautology, and everything after it would run under a symbolic
   guard.  Each numeric atom therefore carries two *concrete* tags (words 2 and 3 of its buffer, copied with it):
   its origin id, and the origin id of the atom that the last strTo<> read before it was created ("derived from").
   compare() of an atom with one derived from it returns "equal" without branching; that shortcut is justified by an
   assertion (checked by the solver) that the two values are indeed equal. */
static u64 num_next_id = 1, num_last_read = 0;
static void num_tag(u8* d) { *(u64*)(d + 16) = num_next_id++; *(u64*)(d + 24) = num_last_read; num_last_read = 0; }
static void num_set32(u8* ret, u32 v) { s_init(ret); u8* d = S_P(ret); *(u64*)d = (u64)v; d[8] = NUM_I32; d[9] = 0; S_LEN(ret) = 9; num_tag(d); }
static void num_set64(u8* ret, long long v) { s_init(ret); u8* d = S_P(ret); *(long long*)d = v; d[8] = NUM_I64; d[9] = 0; S_LEN(ret) = 9; num_tag(d); }
static int num_kind(u8* s) { if (S_LEN(s) != 9) return 0; u8 k = S_P(s)[8]; return (k == NUM_I32 || k == NUM_I64) ? k : 0; }
static int is_num(u8* s) { return num_kind(s) != 0; }
static u32 num_get32(u8* s) { return (u32)*(u64*)S_P(s); }
static long long num_get(u8* s) { return num_kind(s) == NUM_I32 ? (long long)(int)num_get32(s) : *(long long*)S_P(s); }
static int looks_decimal(const u8* p, u64 n) { return n > 0 && ((p[0] >= '0' && p[0] <= '9') || p[0] == '-' || p[0] == '+' || p[0] == ' '); }
void M_pml_tostr_i32(u8* ret, u32 v) { num_set32(ret, v); }
void M_pml_tostr_u32(u8* ret, u32 v) { num_set64(ret, (long long)v); }
void M_pml_tostr_i64(u8* ret, u64 v) { num_set64(ret, (long long)v); }
void M_pml_tostr_bool(u8* ret, u8 v) { num_set32(ret, (v & 1) ? 1u : 0u); }
void M_pml_tostr_str(u8* ret, u8* s) { s_init(ret); s_set(ret, S_P(s), S_LEN(s)); }
void M_pml_tostr_cstr(u8* ret, u8* c) { s_init(ret); s_set(ret, c, c_len(c)); }
static long long dec_parse(u8* s, long long lo, long long hi) {
  u8* p = S_P(s); u64 n = S_LEN(s), i = 0; int neg = 0; long long v = 0; int any = 0, ovf = 0;
  while (i < n && (p[i] == ' ' || (p[i] >= 9 && p[i] <= 13))) i++;
  if (i < n && (p[i] == '-' || p[i] == '+')) { neg = p[i] == '-'; i++; }
  while (i < n && p[i] >= '0' && p[i] <= '9') { any = 1; if (v > (hi - (p[i] - '0')) / 10 + 1) ovf = 1; else v = v * 10 + (p[i] - '0'); i++; }
  if (!any) return 0;
  if (neg) v = -v;
  if (ovf || v > hi) return neg ? lo : hi;
  if (v < lo) return lo;
  return v;
}
u32 M_pml_strto_i32(u8* s) {
  if (num_kind(s) == NUM_I32) { num_last_read = *(u64*)(S_P(s) + 16); return num_get32(s); }
  if (num_kind(s) == NUM_I64) { long long v = num_get(s); return v > 2147483647LL ? 2147483647u : v < -2147483648LL ? 0x80000000u : (u32)(int)v; }
  return (u32)(int)dec_parse(s, -2147483648LL, 2147483647LL);
}
u64 M_pml_strto_i64(u8* s) { if (is_num(s)) return (u64)num_get(s); return (u64)dec_parse(s, -9223372036854775807LL - 1, 9223372036854775807LL); }
static u32 bytes_cmp(u8* a, u64 la, const u8* b, u64 lb) {
  u64 n = la < lb ? la : lb;
  for (u64 i = 0; i < n; i++) if (a[i] != b[i]) return a[i] < b[i] ? (u32)-1 : 1u;
  return la == lb ? 0u : la < lb ? (u32)-1 : 1u;
}
u32 M_pml_cmp_cstr(u8* s, u8* c) {
  if (is_num(s)) { IR_ASSERT(!looks_decimal(c, c_len(c)), "BOUND: numeric atom compared with decimal text"); return 1u; }
  return bytes_cmp(S_P(s), S_LEN(s), c, c_len(c));
}
u32 M_pml_cmp_str(u8* s, u8* o) {
  if (num_kind(s) == NUM_I32 && num_kind(o) == NUM_I32) { u32 x = num_get32(s), y = num_get32(o);
    u64 os = *(u64*)(S_P(s) + 16), oo = *(u64*)(S_P(o) + 16), ds = *(u64*)(S_P(s) + 24), dn = *(u64*)(S_P(o) + 24);
    if ((dn != 0 && dn == os) || (ds != 0 && ds == oo)) { IR_ASSERT(x == y, "MODEL: atom derived by toStr(strTo(atom)) has the same value"); return 0u; } return x == y ? 0u : (int)x < (int)y ? (u32)-1 : 1u; }
  if (is_num(s) && is_num(o)) { long long x = num_get(s), y = num_get(o); return x == y ? 0u : x < y ? (u32)-1 : 1u; }
  if (is_num(s)) { IR_ASSERT(!looks_decimal(S_P(o), S_LEN(o)), "BOUND: numeric atom compared with decimal text"); return 1u; }
  if (is_num(o)) { IR_ASSERT(!looks_decimal(S_P(s), S_LEN(s)), "BOUND: numeric atom compared with decimal text"); return (u32)-1; }
  return bytes_cmp(S_P(s), S_LEN(s), S_P(o), S_LEN(o));
}
u8 M_pml_iequals(u8* a, u8* b) {
  if (S_LEN(a) != S_LEN(b)) return 0;
  for (u64 i = 0; i < S_LEN(a); i++) { u8 x = S_P(a)[i], y = S_P(b)[i]; if (x >= 'A' && x <= 'Z') x += 32; if (y >= 'A' && y <= 'Z') y += 32; if (x != y) return 0; }
  return 1;
}
void M_pml_desc(u8* ret, u32 type) { s_init(ret); }
void M_pml_dump(u8* self, u64 indent) { }
/* uscxml::Data::operator== restricted to atom-only values (empty compound and array, no blob): by Data::operator<
 * two such values are equal iff atom, node and type are equal.  Anything else is outside the model (BOUND).
 * Layout (g++/clang, libstdc++): node@0, compound@8 (node count @48), array@56 (size @72), atom@80, binary@112
 * (impl pointer @120), type@136. */
u8 M_pml_data_eq(u8* a, u8* b) {
  IR_ASSERT(*(u64*)(a + 48) == 0 && *(u64*)(b + 48) == 0 && *(u64*)(a + 72) == 0 && *(u64*)(b + 72) == 0 && *(u64*)(a + 120) == 0 && *(u64*)(b + 120) == 0,
            "BOUND: Data::operator== model covers atom-only values");
  if (M_pml_cmp_str(a + 80, b + 80) != 0) return 0;
  if (*(u64*)(a + 0) != *(u64*)(b + 0)) return 0;
  return *(u32*)(a + 136) == *(u32*)(b + 136);
}
