/* single thread: mutexes are depth counters (first word of the pthread_mutex_t), condition variables count notifications.
 * A wait on a condition variable is not modelled (no second thread could ever signal): reaching it is INCONCLUSIVE. */
int ir_lock_depth = 0, ir_lock_ops = 0, ir_unlock_without_lock = 0, ir_cv_notified = 0;
u32 M_mtx_lock(u8* m) { ir_lock_depth++; ir_lock_ops++; return 0; }
u32 M_mtx_unlock(u8* m) { if (ir_lock_depth <= 0) ir_unlock_without_lock = 1; ir_lock_depth--; return 0; }
void M_cv_ctor(u8* c) {} void M_cv_dtor(u8* c) {}
void M_cv_notify(u8* c) { ir_cv_notified++; }
u8 M_uncaught(void) { return 0; }
u32 M_key_create(u8* k, u8* d) { return 0; }
