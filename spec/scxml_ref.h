/* REF: a deliberately naive implementation of the W3C SCXML 1.0 interpretation algorithm
 * (Recommendation, Appendix D), at micro-step granularity, over minimal structural facts.
 *
 * It shares nothing with uscxml: the facts come from engine/chartgen.py (Python XML parser), the
 * algorithm below follows the pseudo-code of Appendix D function by function.
 *
 * States are numbered in document order over the elements scxml/state/parallel/final/history/initial
 * (0 = <scxml>); transitions are numbered in document order over all <transition> elements.
 * Sets are 32-bit masks (charts up to 32 states / 32 transitions).
 *
 * Plain C, loops bounded by R_NS / R_NT so that CBMC unrolls them completely.
 */
#ifndef SCXML_REF_H
#define SCXML_REF_H
#include <stdint.h>

#ifndef R_MAXS
#define R_MAXS 32
#endif
#ifndef R_MAXT
#define R_MAXT 32
#endif
typedef uint32_t rset;

enum { RK_SCXML = 0, RK_STATE = 1, RK_PARALLEL = 2, RK_FINAL = 3, RK_HIST_SHALLOW = 4, RK_HIST_DEEP = 5, RK_INITIAL = 6 };
enum { RT_NORMAL = 0, RT_INITIAL = 1, RT_HISTORY = 2 };

typedef struct {
	int ns, nt;
	uint8_t kind[R_MAXS];
	uint8_t parent[R_MAXS];          /* parent[0] == 0 */
	rset init_targets[R_MAXS];       /* compound states and <scxml>: targets of the default initial transition
	                                    (initial attribute, <initial> child, or first child in document order) */
	int8_t init_trans[R_MAXS];       /* transition index of the <initial> child's transition, -1 if none */
	int8_t hist_trans[R_MAXS];       /* history states: index of the default transition, -1 if none */
	uint8_t tsrc[R_MAXT];
	rset ttgt[R_MAXT];
	uint8_t tkind[R_MAXT];           /* RT_* */
	uint8_t tinternal[R_MAXT];
	uint8_t teventless[R_MAXT];
} ref_chart;

#define RBIT(i) ((rset)1u << (i))
#define RHAS(set, i) (((set) >> (i)) & 1u)

/* ---------------------------------------------------------------- structural predicates
 * Defined naively from kind[] / parent[] and tabulated once by r_init() (pure memoisation, so that a
 * symbolic executor does not re-run the defining loops at every use). */
static int r_is_proper(const ref_chart* c, int s) { return c->kind[s] <= RK_FINAL; }
static int r_is_history(const ref_chart* c, int s) { return c->kind[s] == RK_HIST_SHALLOW || c->kind[s] == RK_HIST_DEEP; }
static rset r_children_def(const ref_chart* c, int s) { /* proper child states */
	rset m = 0;
	for (int i = 1; i < c->ns; i++) if (c->parent[i] == s && r_is_proper(c, i)) m |= RBIT(i);
	return m;
}
/* isDescendant(s1, s2): s1 is a proper descendant of s2 */
static int r_is_desc_def(const ref_chart* c, int s1, int s2) {
	int p = s1;
	for (int k = 0; k < c->ns; k++) { if (p == 0) return 0; p = c->parent[p]; if (p == s2) return 1; }
	return 0;
}
static rset R_children[R_MAXS], R_desc[R_MAXS], R_anc[R_MAXS];
static void r_init(const ref_chart* c) {
	for (int s = 0; s < c->ns; s++) {
		R_children[s] = r_children_def(c, s);
		rset d = 0, a = 0;
		for (int i = 0; i < c->ns; i++) { if (r_is_desc_def(c, i, s)) d |= RBIT(i); if (r_is_desc_def(c, s, i)) a |= RBIT(i); }
		R_desc[s] = d; R_anc[s] = a;
	}
}
static rset r_children(const ref_chart* c, int s) { (void)c; return R_children[s]; }
static int r_is_desc(const ref_chart* c, int s1, int s2) { (void)c; return (int)RHAS(R_desc[s2], s1); }
static rset r_descendants(const ref_chart* c, int s) { (void)c; return R_desc[s]; }
static rset r_ancestors(const ref_chart* c, int s) { (void)c; return R_anc[s]; }
static int r_is_atomic(const ref_chart* c, int s) { return r_is_proper(c, s) && (c->kind[s] == RK_FINAL || r_children(c, s) == 0); }
static int r_is_parallel(const ref_chart* c, int s) { return c->kind[s] == RK_PARALLEL; }
static int r_is_compound(const ref_chart* c, int s) { return (c->kind[s] == RK_STATE || c->kind[s] == RK_SCXML) && r_children(c, s) != 0; }
static int r_is_final(const ref_chart* c, int s) { return c->kind[s] == RK_FINAL; }

/* ---------------------------------------------------------------- legal configuration (Rec. 3.11) */
static int r_legal(const ref_chart* c, rset conf) {
	if (!RHAS(conf, 0)) return 0;
	int atomic = 0;
	for (int i = 0; i < c->ns; i++) {
		if (!RHAS(conf, i)) continue;
		if (!r_is_proper(c, i)) return 0;
		if (i > 0 && !RHAS(conf, c->parent[i])) return 0;
		rset ch = r_children(c, i);
		if (r_is_atomic(c, i)) atomic = 1;
		else if (r_is_parallel(c, i)) { if ((conf & ch) != ch) return 0; }
		else { rset a = conf & ch; if (a == 0 || (a & (a - 1)) != 0) return 0; }
	}
	return atomic;
}

/* ---------------------------------------------------------------- transitions */
/* getEffectiveTargetStates(t): history targets are dereferenced (stored value, else default) */
static rset r_effective_targets(const ref_chart* c, int t, const rset* hist) {
	rset res = 0;
	for (int s = 0; s < c->ns; s++) {
		if (!RHAS(c->ttgt[t], s)) continue;
		if (r_is_history(c, s)) {
			if (hist[s]) res |= hist[s];
			else if (c->hist_trans[s] >= 0) {
				/* one level of recursion is written out: a history default may itself name a history */
				int t2 = c->hist_trans[s];
				for (int s2 = 0; s2 < c->ns; s2++) {
					if (!RHAS(c->ttgt[t2], s2)) continue;
					if (r_is_history(c, s2)) { if (hist[s2]) res |= hist[s2]; else if (c->hist_trans[s2] >= 0) res |= c->ttgt[c->hist_trans[s2]]; }
					else res |= RBIT(s2);
				}
			}
		} else res |= RBIT(s);
	}
	return res;
}
/* findLCCA(states): first compound-or-scxml proper ancestor of the first state that has all others as descendants */
static int r_find_lcca(const ref_chart* c, int first, rset all) {
	int anc = first;
	for (int k = 0; k < c->ns; k++) {
		if (anc == 0) return 0;
		anc = c->parent[anc];
		if (!(r_is_compound(c, anc) || anc == 0)) continue;
		int ok = 1;
		for (int s = 0; s < c->ns; s++) if (RHAS(all, s) && s != first && !r_is_desc(c, s, anc)) ok = 0;
		/* `first` itself is a descendant of anc by construction; the other members must be too */
		if (ok) return anc;
	}
	return 0;
}
/* getTransitionDomain(t); -1 = null (targetless) */
static int r_domain(const ref_chart* c, int t, const rset* hist) {
	rset tstates = r_effective_targets(c, t, hist);
	int src = c->tsrc[t];
	if (tstates == 0) return -1;
	if (c->tinternal[t] && r_is_compound(c, src)) {
		int all = 1;
		for (int s = 0; s < c->ns; s++) if (RHAS(tstates, s) && !r_is_desc(c, s, src)) all = 0;
		if (all) return src;
	}
	return r_find_lcca(c, src, tstates | RBIT(src));
}
/* computeExitSet of one transition */
static rset r_exit_set1(const ref_chart* c, int t, rset conf, const rset* hist) {
	if (c->ttgt[t] == 0) return 0;
	int d = r_domain(c, t, hist);
	if (d < 0) return 0;
	rset m = 0;
	for (int s = 0; s < c->ns; s++) if (RHAS(conf, s) && r_is_desc(c, s, d)) m |= RBIT(s);
	return m;
}

/* selectTransitions / selectEventlessTransitions followed by removeConflictingTransitions.
 *   enabled: bit t set iff transition t's event matches (or t is eventless in an eventless step)
 *            and its condition holds -- the caller supplies these answers.
 *   returns the optimal enabled transition set as a mask; ord[t] is the position key of t in the
 *   ordered set Appendix D produces (the document-order rank of the first atomic state that selected it).
 *   variant: 0 = W3C (conflict = exit sets intersect); 1 = additionally "sources are ancestor-related"
 *            (the relation uscxml's transpilers document).
 * Written without data-dependent array indices (every index is a loop constant), which is what a
 * bit-precise symbolic executor likes; the logic is Appendix D's:
 *   for each atomic state in document order: first enabled transition of the state or its ancestors;
 *   then, in that order, t1 is dropped if it conflicts with an already accepted t2 whose source is not
 *   a proper ancestor of t1's source; otherwise every accepted t2 it conflicts with is removed and t1 added.
 *   (The `break` in the pseudo-code only short-cuts; whether t1 is pre-empted does not depend on the order
 *   in which the accepted set is scanned, and the final order is the order of acceptance.) */
static rset r_select(const ref_chart* c, rset conf, rset enabled, const rset* hist, int variant, uint8_t* ord) {
	rset xs[R_MAXT];
	for (int t = 0; t < c->nt; t++) { ord[t] = 0; xs[t] = (c->tkind[t] == RT_NORMAL && RHAS(enabled, t)) ? r_exit_set1(c, t, conf, hist) : 0; }
	rset seen = 0, F = 0;
	for (int s = 0; s < c->ns; s++) {              /* atomic states of the configuration in document order */
		if (!r_is_atomic(c, s)) continue;
		int active = (int)RHAS(conf, s);
		/* candidates: transitions of s and its proper ancestors, innermost source first, document order within a source */
		int found = 0;
		int cur = s;
		for (int k = 0; k <= c->ns; k++) {
			for (int t = 0; t < c->nt; t++) {
				if (c->tkind[t] != RT_NORMAL || c->tsrc[t] != cur) continue;
				if (active && !found && RHAS(enabled, t)) {
					found = 1;
					if (!RHAS(seen, t)) {
						seen |= RBIT(t); ord[t] = (uint8_t)s;
						/* removeConflictingTransitions, one t1 at a time */
						int preempted = 0; rset remove = 0;
						for (int t2 = 0; t2 < c->nt; t2++) {
							if (c->tkind[t2] != RT_NORMAL || t2 == t) continue;
							int conflict = (xs[t] & xs[t2]) != 0;
							if (variant == 1 && (c->tsrc[t] == c->tsrc[t2] || r_is_desc(c, c->tsrc[t], c->tsrc[t2]) || r_is_desc(c, c->tsrc[t2], c->tsrc[t]))) conflict = 1;
							if (RHAS(F, t2) && conflict) { if (r_is_desc(c, c->tsrc[t], c->tsrc[t2])) remove |= RBIT(t2); else preempted = 1; }
						}
						if (!preempted) F = (F & ~remove) | RBIT(t);
					}
				}
			}
			if (cur == 0) break;
			cur = c->parent[cur];
		}
	}
	return F;
}

/* ---------------------------------------------------------------- entry set */
typedef struct {
	rset to_enter;            /* statesToEnter */
	rset default_entry;       /* statesForDefaultEntry */
	int8_t hist_content[R_MAXS]; /* defaultHistoryContent: parent state -> history default transition, -1 none */
} ref_entry;

static void r_add_desc(const ref_chart* c, int s, const rset* hist, ref_entry* e, int depth);
static void r_add_anc(const ref_chart* c, int s, int ancestor, const rset* hist, ref_entry* e, int depth) {
	int a = s;
	for (int k = 0; k < c->ns; k++) {
		if (a == 0) break;
		a = c->parent[a];
		if (a == ancestor) break;
		e->to_enter |= RBIT(a);
		if (r_is_parallel(c, a)) {
			rset ch = r_children(c, a);
			for (int ch_i = 0; ch_i < c->ns; ch_i++) {
				if (!RHAS(ch, ch_i)) continue;
				int some = 0;
				for (int s2 = 0; s2 < c->ns; s2++) if (RHAS(e->to_enter, s2) && (s2 == ch_i || r_is_desc(c, s2, ch_i))) some = 1;
				if (!some) r_add_desc(c, ch_i, hist, e, depth + 1);
			}
		}
	}
}
#ifndef R_MAXDEPTH
#define R_MAXDEPTH 8
#endif
static void r_add_desc(const ref_chart* c, int s, const rset* hist, ref_entry* e, int depth) {
	if (depth > R_MAXDEPTH) return;
	if (r_is_history(c, s)) {
		int par = c->parent[s];
		if (hist[s]) {
			for (int s2 = 0; s2 < c->ns; s2++) if (RHAS(hist[s], s2)) r_add_desc(c, s2, hist, e, depth + 1);
			for (int s2 = 0; s2 < c->ns; s2++) if (RHAS(hist[s], s2)) r_add_anc(c, s2, par, hist, e, depth + 1);
		} else if (c->hist_trans[s] >= 0) {
			int t = c->hist_trans[s];
			e->hist_content[par] = (int8_t)t;
			for (int s2 = 0; s2 < c->ns; s2++) if (RHAS(c->ttgt[t], s2)) r_add_desc(c, s2, hist, e, depth + 1);
			for (int s2 = 0; s2 < c->ns; s2++) if (RHAS(c->ttgt[t], s2)) r_add_anc(c, s2, par, hist, e, depth + 1);
		}
		return;
	}
	e->to_enter |= RBIT(s);
	if (r_is_compound(c, s)) {
		e->default_entry |= RBIT(s);
		rset it = c->init_targets[s];
		for (int s2 = 0; s2 < c->ns; s2++) if (RHAS(it, s2)) r_add_desc(c, s2, hist, e, depth + 1);
		for (int s2 = 0; s2 < c->ns; s2++) if (RHAS(it, s2)) r_add_anc(c, s2, s, hist, e, depth + 1);
	} else if (r_is_parallel(c, s)) {
		rset ch = r_children(c, s);
		for (int ch_i = 0; ch_i < c->ns; ch_i++) {
			if (!RHAS(ch, ch_i)) continue;
			int some = 0;
			for (int s2 = 0; s2 < c->ns; s2++) if (RHAS(e->to_enter, s2) && (s2 == ch_i || r_is_desc(c, s2, ch_i))) some = 1;
			if (!some) r_add_desc(c, ch_i, hist, e, depth + 1);
		}
	}
}
/* computeEntrySet(transitions) */
static void r_entry_set(const ref_chart* c, rset F, const rset* hist, ref_entry* e) {
	e->to_enter = 0; e->default_entry = 0;
	for (int i = 0; i < R_MAXS; i++) e->hist_content[i] = -1;
	for (int t = 0; t < c->nt; t++) {
		if (!RHAS(F, t)) continue;
		for (int s = 0; s < c->ns; s++) if (RHAS(c->ttgt[t], s)) r_add_desc(c, s, hist, e, 0);
		int anc = r_domain(c, t, hist);
		rset eff = r_effective_targets(c, t, hist);
		for (int s = 0; s < c->ns; s++) if (RHAS(eff, s)) r_add_anc(c, s, anc, hist, e, 0);
	}
}

/* isInFinalState(s) */
static int r_in_final(const ref_chart* c, int s, rset conf, int depth) {
	if (depth > R_MAXDEPTH) return 0;
	if (r_is_compound(c, s)) {
		for (int i = 0; i < c->ns; i++) if (c->parent[i] == s && i != s && r_is_final(c, i) && RHAS(conf, i)) return 1;
		return 0;
	}
	if (r_is_parallel(c, s)) {
		rset ch = r_children(c, s);
		for (int i = 0; i < c->ns; i++) if (RHAS(ch, i) && !r_in_final(c, i, conf, depth + 1)) return 0;
		return 1;
	}
	return 0;
}

/* ---------------------------------------------------------------- one micro step
 * The result is returned as *sets plus a canonical order* instead of a sequence:
 *   exits happen in reverse document order, transition content in the order of the optimal set
 *   (ord[] of r_select), entries in document order; per entered state: onentry handlers, then the
 *   content of its <initial> transition, then history default content, then done events.
 * A harness checks an implementation's actions against the sets and checks that their keys ascend. */
typedef struct {
	rset exited;                    /* statesToExit */
	rset entered;                   /* statesToEnter as Appendix D computes it */
	rset default_entry;             /* entered compound states whose <initial> transition content runs */
	int8_t hist_content[R_MAXS];    /* per entered state: history default transition whose content runs, or -1 */
	uint8_t done[R_MAXS];           /* number of done.state.<s> events raised */
	uint8_t done_at[R_MAXS];        /* the entered final state at whose entry done.state.<s> is (first) raised */
	uint8_t done_key[R_MAXS];       /* its position among the actions of that entry: 8 = first done event, 9 = second, ... */
	int topfinal;                   /* a final child of <scxml> was entered */
	int reenter;                    /* Appendix D "entered" a state that was never exited (ill-defined there) */
} ref_step;

/* "every active non-final state below j is an ancestor of an active final state below j": the notion of a
 * parallel being done that uscxml's engines and transpilers share (a compound region counts as finished when
 * the chain of active states below it ends in a <final>, however deep).  Appendix D instead asks every child
 * of the parallel to have a *direct* final child active, and only looks at the grandparent of the entered
 * final state. */
static int r_deep_final(const ref_chart* c, int j, rset conf) {
	for (int k = 0; k < c->ns; k++) {
		if (!RHAS(conf, k) || !r_is_desc(c, k, j) || r_is_final(c, k)) continue;
		int covered = 0;
		for (int f = 0; f < c->ns; f++) if (RHAS(conf, f) && r_is_final(c, f) && r_is_desc(c, f, j) && r_is_desc(c, f, k)) covered = 1;
		if (!covered) return 0;
	}
	return 1;
}
/* dvariant: 0 = Appendix D; 1 = uscxml, outermost parallel ancestor first; 2 = uscxml, innermost first,
 * stopping at the first parallel ancestor that is not done */
static void r_enter_states(const ref_chart* c, const ref_entry* e, rset* conf, ref_step* st, int dvariant) {
	st->entered = e->to_enter; st->default_entry = 0; st->topfinal = 0;
	for (int s = 0; s < R_MAXS; s++) { st->hist_content[s] = -1; st->done[s] = 0; st->done_at[s] = 0; st->done_key[s] = 0; }
	for (int s = 0; s < c->ns; s++) {             /* entryOrder: document order */
		if (!RHAS(e->to_enter, s)) continue;
		if (RHAS(*conf, s)) st->reenter = 1;
		*conf |= RBIT(s);
		if (RHAS(e->default_entry, s) && c->init_trans[s] >= 0) st->default_entry |= RBIT(s);
		st->hist_content[s] = e->hist_content[s];
		if (r_is_final(c, s)) {
			int par = c->parent[s];
			if (par == 0) st->topfinal = 1;
			else {
				int key = 8;
				if (!st->done[par]) { st->done_at[par] = (uint8_t)s; st->done_key[par] = (uint8_t)key; }
				st->done[par]++; key++;
				if (dvariant == 0) {
					int gp = c->parent[par];
					if (r_is_parallel(c, gp)) {
						int all = 1; rset ch = r_children(c, gp);
						for (int i = 0; i < c->ns; i++) if (RHAS(ch, i) && !r_in_final(c, i, *conf, 0)) all = 0;
						if (all) { if (!st->done[gp]) { st->done_at[gp] = (uint8_t)s; st->done_key[gp] = (uint8_t)key; } st->done[gp]++; }
					}
				} else if (dvariant == 1) {
					for (int j = 0; j < c->ns; j++) {
						if (!r_is_parallel(c, j) || !r_is_desc(c, s, j)) continue;
						if (r_deep_final(c, j, *conf)) { if (!st->done[j]) { st->done_at[j] = (uint8_t)s; st->done_key[j] = (uint8_t)key; } st->done[j]++; key++; }
					}
				} else {
					int stop = 0;
					for (int j = c->ns - 1; j >= 0; j--) {
						if (stop || !r_is_parallel(c, j) || !r_is_desc(c, s, j)) continue;
						if (r_deep_final(c, j, *conf)) { if (!st->done[j]) { st->done_at[j] = (uint8_t)s; st->done_key[j] = (uint8_t)key; } st->done[j]++; key++; }
						else stop = 1;
					}
				}
			}
		}
	}
}

/* microstep(enabledTransitions): exitStates, executeTransitionContent, enterStates.
 * conf / hist are updated in place. */
static void r_microstep(const ref_chart* c, rset F, rset* conf, rset* hist, ref_step* st, int dvariant) {
	st->reenter = 0;
	/* ---- exitStates: computeExitSet with the history as it is now */
	rset xs = 0;
	for (int t = 0; t < c->nt; t++) if (RHAS(F, t)) xs |= r_exit_set1(c, t, *conf, hist);
	/* record history (configuration before any state is removed) */
	rset newhist[R_MAXS];
	for (int h = 0; h < c->ns; h++) newhist[h] = hist[h];
	for (int h = 0; h < c->ns; h++) {
		if (!r_is_history(c, h)) continue;
		int s = c->parent[h];
		if (!RHAS(xs, s)) continue;
		rset v = 0;
		for (int s0 = 0; s0 < c->ns; s0++) {
			if (!RHAS(*conf, s0)) continue;
			if (c->kind[h] == RK_HIST_DEEP) { if (r_is_atomic(c, s0) && r_is_desc(c, s0, s)) v |= RBIT(s0); }
			else { if (c->parent[s0] == s && s0 != s) v |= RBIT(s0); }
		}
		newhist[h] = v;
	}
	*conf &= ~xs;
	st->exited = xs;
	for (int h = 0; h < c->ns; h++) hist[h] = newhist[h];
	/* ---- enterStates: computeEntrySet sees the updated historyValue */
	ref_entry e;
	r_entry_set(c, F, hist, &e);
	r_enter_states(c, &e, conf, st, dvariant);
}

/* The initial step: enterStates([doc.initial.transition]); <scxml> itself is entered as well
 * (uscxml reports the root like any other state; Appendix D treats it as implicit). */
static void r_initial_step(const ref_chart* c, rset* conf, rset* hist, ref_step* st, int dvariant) {
	ref_entry e; e.to_enter = 0; e.default_entry = 0;
	for (int i = 0; i < R_MAXS; i++) e.hist_content[i] = -1;
	rset it = c->init_targets[0];
	for (int s = 0; s < c->ns; s++) if (RHAS(it, s)) r_add_desc(c, s, hist, &e, 0);
	for (int s = 0; s < c->ns; s++) if (RHAS(it, s)) r_add_anc(c, s, 0, hist, &e, 0);
	e.to_enter |= RBIT(0);
	st->reenter = 0; st->exited = 0;
	r_enter_states(c, &e, conf, st, dvariant);
}
#endif
