/* Reference relation for SCXML event-descriptor matching, W3C SCXML 1.0 Recommendation 3.12.1.
 *
 *   - the `event` attribute is a space separated list of event descriptors;
 *   - a descriptor is a series of alphanumeric tokens separated by '.', optionally followed by
 *     ".*" or "." (both ignored), or the single character '*' which matches every name;
 *   - a descriptor matches an event name iff its token string equals the name's token string or
 *     is a prefix of it (token-wise); token matching is case sensitive;
 *   - a transition matches iff at least one descriptor matches.
 *
 * Plain C so that the same text is used inside CBMC harnesses and in native replay tools.
 * Token characters for the purpose of the checks: everything that is not '.', '*' or ' '.
 */
#ifndef SPEC_NAME_MATCH_H
#define SPEC_NAME_MATCH_H
#include <stdint.h>
#include <stddef.h>

static int nm_tokc(uint8_t c) { return c != '.' && c != '*' && c != ' ' && c != 0 && !(c >= 9 && c <= 13); }

/* name = token ('.' token)* */
static int nm_wf_name(const uint8_t* s, uint64_t n) {
	if (n == 0) return 0;
	for (uint64_t i = 0; i < n; i++) {
		if (s[i] == '.') { if (i == 0 || i == n - 1 || s[i - 1] == '.') return 0; }
		else if (!nm_tokc(s[i])) return 0;
	}
	return 1;
}

/* strip the ignorable suffix of a descriptor in [b,e): returns new end */
static uint64_t nm_strip(const uint8_t* s, uint64_t b, uint64_t e) {
	uint64_t n = e - b;
	if (n >= 2 && s[e - 1] == '*' && s[e - 2] == '.') return e - 2;
	if (n >= 1 && s[e - 1] == '.') return e - 1;
	return e;
}

/* descriptor = '*' | name | name '.' | name '.*' */
static int nm_wf_desc(const uint8_t* s, uint64_t b, uint64_t e) {
	if (e - b == 1 && s[b] == '*') return 1;
	e = nm_strip(s, b, e);
	return nm_wf_name(s + b, e - b);
}

static int nm_match1(const uint8_t* d, uint64_t b, uint64_t e, const uint8_t* nm, uint64_t nl) {
	if (e - b == 1 && d[b] == '*') return 1;
	e = nm_strip(d, b, e);
	uint64_t n = e - b;
	if (n > nl) return 0;
	for (uint64_t i = 0; i < n; i++) if (d[b + i] != nm[i]) return 0;
	return n == nl || nm[n] == '.';
}

/* Whole relation.  *wf is set to 1 iff the list is well formed (>= 1 descriptor, all well formed)
 * and the event name is well formed.  maxd bounds the loop for CBMC (pass dl otherwise). */
static int nm_spec(const uint8_t* d, uint64_t dl, const uint8_t* nm, uint64_t nl, int* wf, uint64_t maxd) {
	int ok = nm_wf_name(nm, nl), any = 0, res = 0;
	uint64_t b = 0;
	for (uint64_t i = 0; i <= maxd; i++) {
		if (i > dl) break;
		if (i == dl || d[i] == ' ') {
			if (i > b) {
				any = 1;
				if (!nm_wf_desc(d, b, i)) ok = 0;
				else if (ok && nm_match1(d, b, i, nm, nl)) res = 1;
			}
			b = i + 1;
		}
	}
	*wf = ok && any;
	return res;
}
#endif
