/* Post-condition of jsmn_parse() as Data::fromJSON uses it (non-strict, no parent links):
 * proved about the real contrib/src/jsmn/jsmn.c by harness/c15_jsmn.c (for all inputs up to the
 * bound), and *assumed* of the jsmn_parse stub in the token-walk harness of Data::fromJSON.
 *   L  = strlen(js), N = num_tokens, tokens[0..N] zero-initialised before the call (N+1 entries)
 */
#ifndef JSMN_POST_H
#define JSMN_POST_H
#define JP_MAXTOK 16
static int jsmn_post(int rv, const jsmntok_t* t, unsigned N, int toknext, unsigned L) {
	if (rv != 0 && rv != -1 && rv != -2 && rv != -3) return 0;
	if (toknext < 0 || (unsigned)toknext > N) return 0;
	/* untouched tail incl. the sentinel stays zero */
	for (unsigned i = 0; i <= JP_MAXTOK; i++) {
		if (i > N) break;
		if (i >= (unsigned)toknext && (t[i].type != 0 || t[i].start != 0 || t[i].end != 0 || t[i].size != 0)) return 0;
	}
	if (rv != 0) return 1;
	for (unsigned i = 0; i < JP_MAXTOK; i++) {
		if (i >= (unsigned)toknext) break;
		if ((int)t[i].type < 0 || (int)t[i].type > 3) return 0;
		if (t[i].start < 0 || t[i].end < t[i].start || (unsigned)t[i].end > L) return 0;
		if ((t[i].type == JSMN_OBJECT || t[i].type == JSMN_ARRAY) && t[i].end < t[i].start + 2) return 0;
		if (t[i].size < 0) return 0;
		if (i + 1 < (unsigned)toknext && !(t[i].start < t[i + 1].start)) return 0;
		/* nesting: a later token lies completely inside or completely behind an earlier one */
		for (unsigned j = 0; j < JP_MAXTOK; j++) {
			if (j >= (unsigned)toknext) break;
			if (j <= i) continue;
			if (t[j].start >= t[i].end) continue;
			if (!(t[i].type == JSMN_OBJECT || t[i].type == JSMN_ARRAY)) return 0;
			if (!(t[j].start > t[i].start && t[j].end < t[i].end)) return 0;
		}
	}
	return 1;
}
#endif
