"""C17: Promela datamodel expressions.
  expression tree (generated) --render--> text --(real flex/bison parser, native pml_dump)--> AST
       (a) AST compared with the tree it was rendered from (precedence, associativity, unary operators)
       (b) AST rebuilt in the CBMC harness; the real evaluateExpr/evaluateStmnt/evaluateDecl (PromelaDataModel.cpp
           --clang++--> IR --ir2c--> C) run on it with symbolic variable values and are compared with C semantics
"""
import os, re, random, itertools
from common import *
import engines

TOK = {'PML_VAR_ARRAY': 258, 'PML_CONST': 294, 'PML_NAME': 297, 'PML_ASGN': 307, 'PML_OR': 308, 'PML_AND': 309, 'PML_EQ': 313, 'PML_NE': 314,
       'PML_GT': 315, 'PML_LT': 316, 'PML_GE': 317, 'PML_LE': 318, 'PML_LSHIFT': 319, 'PML_RSHIFT': 320, 'PML_PLUS': 321, 'PML_MINUS': 322,
       'PML_TIMES': 323, 'PML_DIVIDE': 324, 'PML_MODULO': 325, 'PML_NEG': 329, 'PML_CMPND': 331}
# operator -> (token, C precedence level (higher binds tighter), operand type, result type)
BIN = {'||': ('PML_OR', 1, 'b', 'b'), '&&': ('PML_AND', 2, 'b', 'b'),
       '==': ('PML_EQ', 6, 'i', 'b'), '!=': ('PML_NE', 6, 'i', 'b'),
       '<': ('PML_LT', 7, 'i', 'b'), '<=': ('PML_LE', 7, 'i', 'b'), '>': ('PML_GT', 7, 'i', 'b'), '>=': ('PML_GE', 7, 'i', 'b'),
       '<<': ('PML_LSHIFT', 8, 'i', 'i'), '>>': ('PML_RSHIFT', 8, 'i', 'i'),
       '+': ('PML_PLUS', 9, 'i', 'i'), '-': ('PML_MINUS', 9, 'i', 'i'),
       '*': ('PML_TIMES', 10, 'i', 'i'), '/': ('PML_DIVIDE', 10, 'i', 'i'), '%': ('PML_MODULO', 10, 'i', 'i')}
UN = {'!': ('PML_NEG', 'b', 'b'), 'neg': ('PML_MINUS', 'i', 'i')}
VARS = ['a', 'b', 'c', 'd']


def token_values():
    """Token numbers come from the tree's own promela.tab.hpp (they change when the grammar is regenerated)."""
    src = open(REPO + '/src/uscxml/plugins/datamodel/promela/parser/promela.tab.hpp').read()
    out = {}
    for k in TOK:
        m = re.search(r'\b%s = (\d+)' % k, src)
        if not m: raise InfraError('token %s not found in promela.tab.hpp' % k)
        out[k] = int(m.group(1))
    return out


# ---------------------------------------------------------------- trees: ('v', name) ('k', int) ('u', op, x) ('b', op, x, y)
def rtype(t):
    if t[0] in ('v', 'k'): return 'i'
    if t[0] == 'u': return UN[t[1]][2]
    return BIN[t[1]][3]


def well_typed(t):
    """int operators take int operands; boolean operators (&& || !) take boolean or int operands;
    ==/!= compare two ints or two booleans."""
    if t[0] in ('v', 'k'): return True
    kids = t[2:]
    if not all(well_typed(k) for k in kids): return False
    if t[0] == 'u':
        return UN[t[1]][1] == 'b' or rtype(t[2]) == 'i'
    want = BIN[t[1]][2]
    if t[1] in ('==', '!='): return rtype(t[2]) == rtype(t[3])
    if want == 'i': return rtype(t[2]) == 'i' and rtype(t[3]) == 'i'
    return True


def render(t, full):
    """minimal parenthesisation relies on C precedence and left associativity; full wraps every operator node."""
    def prec(x):
        if x[0] in ('v', 'k'): return 99
        if x[0] == 'u': return 11
        return BIN[x[1]][1]
    def r(x):
        if x[0] == 'v': return x[1]
        if x[0] == 'k': return str(x[1])
        if x[0] == 'u':
            s = r(x[2])
            if full or prec(x[2]) < 11: s = '(' + s + ')'
            elif x[1] == 'neg' and s.startswith('-'): s = ' ' + s      # "- -a", never "--a"
            return ('!' if x[1] == '!' else '-') + s
        l, rr = r(x[2]), r(x[3])
        p = prec(x)
        if full or prec(x[2]) < p: l = '(' + l + ')'
        if full or prec(x[3]) <= p: rr = '(' + rr + ')'
        return '%s %s %s' % (l, x[1], rr)
    return r(t)


def expected_ast(t, tok):
    """The AST the evaluator's case labels expect for tree t: (type, value, [children])."""
    if t[0] == 'v': return (tok['PML_NAME'], t[1], [])
    if t[0] == 'k': return (tok['PML_CONST'], str(t[1]), [])
    if t[0] == 'u': return (tok[UN[t[1]][0]], '', [expected_ast(t[2], tok)])
    return (tok[BIN[t[1]][0]], '', [expected_ast(t[2], tok), expected_ast(t[3], tok)])


def ast_tree(nodes, i=0):
    ty, val, kids = nodes[i]
    return (ty, val, [ast_tree(nodes, k) for k in kids])


def leaves(): return [('v', 'a'), ('v', 'b'), ('v', 'c')]


def single_op_trees():
    out = [('b', op, ('v', 'a'), ('v', 'b')) for op in BIN]
    out += [('u', '!', ('v', 'a')), ('u', 'neg', ('v', 'a'))]
    out += [('b', op, ('v', 'a'), ('k', k)) for op in ('/', '%', '<<', '*') for k in (0, 3)]
    return out


def pair_trees():
    """x op1 y op2 z in both nestings, for every operator pair: the precedence/associativity matrix."""
    out = []
    a, b, c = leaves()
    for o1 in BIN:
        for o2 in BIN:
            for t in (('b', o2, ('b', o1, a, b), c), ('b', o1, a, ('b', o2, b, c))):
                if well_typed(t): out.append(t)
    for u in UN:
        for o in BIN:
            for t in (('b', o, ('u', u, a), b), ('u', u, ('b', o, a, b)), ('b', o, a, ('u', u, b))):
                if well_typed(t): out.append(t)
    out += [('u', 'neg', ('u', 'neg', a)), ('u', '!', ('u', '!', a)), ('u', 'neg', ('k', 2)), ('b', '-', a, ('u', 'neg', ('k', 2)))]
    return out


def random_tree(rnd, depth):
    if depth == 0 or rnd.random() < 0.15:
        return rnd.choice(leaves() + [('k', rnd.choice([0, 1, 2, 7]))])
    for _ in range(50):
        if rnd.random() < 0.2:
            t = ('u', rnd.choice(list(UN)), random_tree(rnd, depth - 1))
        else:
            t = ('b', rnd.choice(list(BIN)), random_tree(rnd, depth - 1), random_tree(rnd, depth - 1))
        if well_typed(t): return t
    return rnd.choice(leaves())


def size(t): return 1 + sum(size(k) for k in t[2:]) if t[0] in ('u', 'b') else 1


# ---------------------------------------------------------------- the real parser, natively
_lock = threading.Lock()


def build_tools():
    tools = os.path.join(WORKROOT, 'tools')
    with _lock:
        os.makedirs(tools, exist_ok=True)
        native_build(['lib/libuscxml.so'])
        lib = os.path.join(BUILD, 'lib', 'libuscxml.so')
        exe = os.path.join(tools, 'pml_dump')
        src = VERIF + '/harness/c17_dump.cpp'
        if not os.path.exists(exe) or os.path.getmtime(exe) < max(os.path.getmtime(src), os.path.getmtime(lib)):
            native_compile([src], exe)
    return exe


def parse_all(lines, W):
    """lines: ['E a + b', 'S x = 1', 'D int a'] -> list of node lists [(type, value, [child idx])] or ('error', msg)"""
    exe = build_tools()
    inp = os.path.join(W, 'pml_in_%d.txt' % (threading.get_ident() % 100000))
    open(inp, 'w').write('\n'.join(lines) + '\n')
    p = subprocess.run('%s < %s' % (exe, inp), shell=True, env=lib_env(), stdout=subprocess.PIPE, stderr=subprocess.PIPE, universal_newlines=True, timeout=300)
    res, cur = [], None
    for ln in p.stdout.splitlines():
        if ln.startswith('AST '):
            cur = []; res.append(cur)
        elif ln.startswith('N '):
            head, val = ln.split(' |', 1)
            f = head.split()
            cur.append((int(f[2]), val, [int(x) for x in f[4:4 + int(f[3])]]))
        elif ln.startswith('PARSEERROR'):
            res.append(('error', ln[11:]))
    if len(res) != len(lines):
        raise InfraError('pml_dump answered %d of %d inputs (rc %s): %s' % (len(res), len(lines), p.returncode, p.stderr[-300:]))
    return res


# ---------------------------------------------------------------- case headers
def tables(nodes):
    n = len(nodes); mx = max([len(k) for _, _, k in nodes] + [1])
    esc = lambda s: s.replace('\\', '\\\\').replace('"', '\\"')
    s = '#define NNODES %d\n#define A_MAXCH %d\n' % (n, mx)
    s += 'static const int A_type[NNODES] = {%s};\n' % ', '.join(str(t) for t, _, _ in nodes)
    s += 'static const char* const A_value[NNODES] = {%s};\n' % ', '.join('"%s"' % esc(v) for _, v, _ in nodes)
    s += 'static const int A_nchild[NNODES] = {%s};\n' % ', '.join(str(len(k)) for _, _, k in nodes)
    s += 'static const int A_child[NNODES][A_MAXCH] = {%s};\n' % ', '.join('{' + ', '.join(str(x) for x in (k + [0] * (mx - len(k)))) + '}' for _, _, k in nodes)
    return s


def ref_expr_c(t):
    """C statements computing value / strict fault / eager fault / undefinedness of tree t.  Returns (code, idx)."""
    code = []; cnt = [0]
    def new(): cnt[0] += 1; return cnt[0]
    def go(x):
        i = new()
        d = lambda: code.append('  int t%d = 0, f%d = 0, e%d = 0; long long w%d = 0;' % (i, i, i, i))
        if x[0] == 'v':
            d(); code.append('  t%d = v[%d];' % (i, VARS.index(x[1]))); return i
        if x[0] == 'k':
            d(); code.append('  t%d = %d;' % (i, x[1])); return i
        if x[0] == 'u':
            k = go(x[2]); d()
            code.append('  f%d = f%d; e%d = e%d;' % (i, k, i, k))
            if x[1] == '!': code.append('  t%d = !t%d;' % (i, k))
            else: code.append('  if (t%d == I_MIN) *undef = 1; else t%d = -t%d;' % (k, i, k))
            return i
        l = go(x[2]); r = go(x[3]); d(); op = x[1]
        if op in ('&&', '||'):
            skip = ('!t%d' if op == '&&' else 't%d') % l       # right operand skipped by short-circuit evaluation
            code.append('  e%d = e%d | e%d; f%d = f%d | ((%s) ? 0 : f%d);' % (i, l, r, i, l, skip, r))
            code.append('  t%d = (t%d != 0) %s (t%d != 0);' % (i, l, op, r))
            return i
        code.append('  f%d = f%d | f%d; e%d = e%d | e%d;' % (i, l, r, i, l, r))
        if op in ('+', '-'):
            code.append('  w%d = (long long)t%d %s (long long)t%d; if (w%d > I_MAX || w%d < I_MIN) *undef = 1; else t%d = (int)w%d;' % (i, l, op, r, i, i, i, i))
        elif op == '*':
            code.append('  w%d = (long long)t%d * (long long)t%d; if (w%d > I_MAX || w%d < I_MIN) *undef = 1; else t%d = MUL_REF(t%d, t%d);' % (i, l, r, i, i, i, l, r))
        elif op in ('/', '%'):
            fn = 'REF_SDIV' if op == '/' else 'REF_SREM'
            code.append('  if (t%d == 0 || (t%d == I_MIN && t%d == -1)) { f%d = 1; e%d = 1; } else t%d = %s(t%d, t%d);' % (r, l, r, i, i, i, fn, l, r))
        elif op == '<<':
            code.append('  if (t%d < 0 || t%d > 31 || t%d < 0 || ((long long)t%d << t%d) > I_MAX) *undef = 1; else t%d = t%d << t%d;' % (r, r, l, l, r, i, l, r))
        elif op == '>>':
            code.append('  if (t%d < 0 || t%d > 31) *undef = 1; else t%d = t%d >> t%d;' % (r, r, i, l, r))
        else:
            code.append('  t%d = t%d %s t%d;' % (i, l, op, r))
        return i
    root = go(t)
    return '\n'.join(code), root


def expr_case(t, text, nodes, path):
    code, root = ref_expr_c(t)
    nv = 1 + max([VARS.index(x) for x in re.findall(r"\('v', '(\w)'\)", repr(t))] + [0])
    with open(path, 'w') as f:
        f.write('/* %s */\n#define MODE 1\n#define NVARS %d\n#define ROOT 0\n' % (text, nv))
        f.write('static void ref_eval(const int* v, int* val, int* strict, int* eager, int* undef) {\n%s\n  *val = t%d; *strict = f%d; *eager = e%d && !f%d;\n}\n' % (code, root, root, root, root))
    tb = path.replace('.h', '_ast.h')
    open(tb, 'w').write('/* AST built by the real parser for: %s */\n' % text + tables(nodes))
    return path, tb


# ---------------------------------------------------------------- lowering and queries
MODELS = ['strmodels.txt', 'cxx.list', 'event.list', 'pml.list']
ROOTS = ['pml_build', 'pml_decl_int', 'pml_eval', 'pml_stmnt', 'pml_decl']
PDM = REPO + '/src/uscxml/plugins/datamodel/promela/PromelaDataModel.cpp'
DATA = REPO + '/src/uscxml/messages/Data.cpp'


def lower(W, tag, tables_h):
    ll_dm = os.path.join(W, 'pdm.ll')
    with _lock:
        if not os.path.exists(ll_dm):
            clang_ir(PDM, ll_dm)
    ll_h = os.path.join(W, tag + '_h.ll')
    clang_ir(VERIF + '/harness/c17_eval.cpp', ll_h, extra=['-fno-pic', '-DC17_TABLES="%s"' % tables_h])
    ll_all = os.path.join(W, tag + '_all.ll')
    llvm_link([ll_h, ll_dm], ll_all)
    out = os.path.join(W, tag + '_gen.c')
    ir2c(ll_all, ROOTS, out, models=[VERIF + '/models/' + m for m in MODELS], stubs=[], noops=engines.NOOPS)
    return out


def query(genc, case_h, witness=False, uf=True, timeout=300, trace=False, unwind=12):
    defs = ['GENC="%s"' % genc, 'C17_CASE="%s"' % case_h, 'IR_POOL', 'SCAP=64', 'S_NUMERIC_ATOMS'] + (['IR_UF_ARITH'] if uf else []) + (['WITNESS'] if witness else [])
    return cbmc(VERIF + '/harness/c17_main.c', ['--unwind', str(unwind), '--unwindset', 'IR_MEMSET.0:70,IR_MEMCPY.0:200,IR_MEMMOVE.0:200,IR_MEMMOVE.1:200,c_len.0:70,s_set.0:70,bytes_cmp.0:70',
                                               '--object-bits', '12', '--max-field-sensitivity-array-size', '200', '--slice-formula'],
                defs, timeout=timeout, mem_gb=12, includes=[VERIF + '/models'], trace=trace)


def native_exe(W, tag, case_h, tables_h):
    exe = os.path.join(W, tag + '_native')
    obj = os.path.join(W, tag + '_main.o')
    sh(['gcc', '-O1', '-w', '-c', '-DNATIVE', '-DC17_CASE="%s"' % case_h, VERIF + '/harness/c17_main.c', '-o', obj], timeout=120)
    native_compile([VERIF + '/harness/c17_eval.cpp', obj], exe, extra=['-DC17_TABLES="%s"' % tables_h])
    return exe


def native_run(exe, vals, timeout=20):
    try:
        p = subprocess.run([exe] + [str(v) for v in vals], env=lib_env(), stdout=subprocess.PIPE, stderr=subprocess.STDOUT, universal_newlines=True, timeout=timeout)
    except subprocess.TimeoutExpired:
        return 'timeout', 'no answer within %d s' % timeout
    if p.returncode < 0: return 'crash', 'killed by signal %d' % -p.returncode
    if 'UNDEF' in p.stdout: return 'undef', p.stdout.strip()
    if 'VERDICT ok' in p.stdout: return 'ok', p.stdout.strip()
    if 'VERDICT fail' in p.stdout: return 'fail', p.stdout.strip()
    return 'crash', 'exit %d: %s' % (p.returncode, p.stdout[-300:])


CORNERS = [0, 1, -1, 2, 3, 7, 31, 32, -2147483648, 2147483647, 46341, -5]
