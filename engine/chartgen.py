#!/usr/bin/env python3
"""chartgen -- the program dimension: SCXML documents as *structure*.

A Chart is a tree of nodes (scxml/state/parallel/final/history/initial) with transitions.  It can be
  * generated (seeded random, systematic small families),
  * read from an existing document (only its structure is kept: corpus shapes),
  * written out as a *skeleton* SCXML document whose executable content is nothing but uniquely
    labelled <log> elements (so every implementation's callbacks identify what ran), and
  * written out as the structural facts the reference model (spec/scxml_ref.h) needs.
Shares nothing with uscxml: Python's own XML parser, own numbering.
"""
import random, itertools, re, sys, os
import xml.etree.ElementTree as ET

NS = 'http://www.w3.org/2005/07/scxml'
KIND = {'scxml': 0, 'state': 1, 'parallel': 2, 'final': 3, 'history_shallow': 4, 'history_deep': 5, 'initial': 6}


class Trans:
    def __init__(self, targets=(), event=False, cond=False, internal=False, content=False):
        self.targets = list(targets)   # node objects
        self.event, self.cond, self.internal, self.content = event, cond, internal, content
        self.idx = None
        self.src = None


class Node:
    def __init__(self, kind, deep=False):
        self.kind = kind               # 'scxml','state','parallel','final','history','initial'
        self.deep = deep
        self.children = []             # Nodes in document order (incl. history / initial)
        self.trans = []                # Trans in document order
        self.initial_attr = None       # list of Nodes or None
        self.n_onentry = 0
        self.n_onexit = 0
        self.invoke = False
        self.parent = None
        self.idx = None
        self.trans_after_children = False

    def add(self, ch):
        ch.parent = self
        self.children.append(ch)
        return ch

    def proper_children(self):
        return [c for c in self.children if c.kind in ('state', 'parallel', 'final')]

    def is_atomic(self):
        return self.kind == 'final' or (self.kind in ('state',) and not self.proper_children())

    def is_compound(self):
        return self.kind in ('state', 'scxml') and bool(self.proper_children())

    def descendants(self):
        out = []
        for c in self.children:
            out.append(c)
            out += c.descendants()
        return out

    def ancestors(self):
        out = []
        p = self.parent
        while p is not None:
            out.append(p)
            p = p.parent
        return out

    def kcode(self):
        if self.kind == 'history':
            return KIND['history_deep'] if self.deep else KIND['history_shallow']
        return KIND[self.kind]


class Chart:
    def __init__(self, root, name='chart'):
        self.root = root
        self.name = name
        self.index()

    def index(self):
        self.nodes = [self.root] + self.root.descendants()
        for i, n in enumerate(self.nodes):
            n.idx = i
        self.trans = []
        def walk(n):
            if not n.trans_after_children:
                for t in n.trans:
                    t.src = n; self.trans.append(t)
            for c in n.children:
                walk(c)
            if n.trans_after_children:
                for t in n.trans:
                    t.src = n; self.trans.append(t)
        walk(self.root)
        for i, t in enumerate(self.trans):
            t.idx = i

    # ------------------------------------------------------------------ skeleton document
    def sid(self, n):
        return {'scxml': 'root', 'history': 'h%d', 'initial': 'i%d'}.get(n.kind, 's%d') % n.idx if n.kind != 'scxml' else 'root'

    def to_xml(self, datamodel=None, with_content=True):
        L = []
        def logs(tag, k):
            return ''.join('<log label="%s.%d"/>' % (tag, e) for e in range(k))
        def emit_trans(t, ind):
            a = ''
            if t.event: a += ' event="e%d"' % t.idx
            if t.cond: a += ' cond="c%d"' % t.idx
            if t.targets: a += ' target="%s"' % ' '.join(self.sid(x) for x in t.targets)
            if t.internal: a += ' type="internal"'
            body = logs('T%d' % t.idx, 2) if (t.content and with_content) else ''
            L.append('%s<transition%s>%s</transition>' % (ind, a, body) if body else '%s<transition%s/>' % (ind, a))
        def emit(n, ind):
            if n.kind == 'scxml':
                a = ' xmlns="%s" version="1.0" name="%s"' % (NS, self.name)
                if datamodel: a += ' datamodel="%s"' % datamodel
                if n.initial_attr: a += ' initial="%s"' % ' '.join(self.sid(x) for x in n.initial_attr)
                L.append('<scxml%s>' % a)
            elif n.kind == 'history':
                L.append('%s<history id="%s" type="%s">' % (ind, self.sid(n), 'deep' if n.deep else 'shallow'))
            elif n.kind == 'initial':
                L.append('%s<initial>' % ind)
            else:
                a = ' id="%s"' % self.sid(n)
                if n.initial_attr: a += ' initial="%s"' % ' '.join(self.sid(x) for x in n.initial_attr)
                L.append('%s<%s%s>' % (ind, n.kind, a))
            if with_content:
                for b in range(n.n_onentry):
                    L.append('%s  <onentry>%s</onentry>' % (ind, logs('N%d.%d' % (n.idx, b), 2)))
                for b in range(n.n_onexit):
                    L.append('%s  <onexit>%s</onexit>' % (ind, logs('X%d.%d' % (n.idx, b), 2)))
            if n.invoke:
                L.append('%s  <invoke type="scxml" id="inv%d"/>' % (ind, n.idx))
            if not n.trans_after_children:
                for t in n.trans: emit_trans(t, ind + '  ')
            for c in n.children: emit(c, ind + '  ')
            if n.trans_after_children:
                for t in n.trans: emit_trans(t, ind + '  ')
            L.append('%s</%s>' % (ind, n.kind))
        emit(self.root, '')
        return '\n'.join(L) + '\n'

    # ------------------------------------------------------------------ facts for REF
    def default_initial(self, n):
        """(targets, transition index or -1) of the default initial transition of a compound state."""
        if n.initial_attr:
            return list(n.initial_attr), -1
        for c in n.children:
            if c.kind == 'initial' and c.trans:
                return list(c.trans[0].targets), c.trans[0].idx
        pc = n.proper_children()
        return ([pc[0]] if pc else []), -1

    def facts_c(self, var='CH'):
        ns, nt = len(self.nodes), len(self.trans)
        def mask(nodes): return '0x%xu' % sum(1 << x.idx for x in nodes)
        kind = [n.kcode() for n in self.nodes]
        parent = [(n.parent.idx if n.parent else 0) for n in self.nodes]
        initt, initr, histr = [], [], []
        for n in self.nodes:
            if n.is_compound():
                tg, ti = self.default_initial(n); initt.append(mask(tg)); initr.append(ti)
            else:
                initt.append('0'); initr.append(-1)
            histr.append(n.trans[0].idx if (n.kind == 'history' and n.trans) else -1)
        def tk(t):
            return 1 if t.src.kind == 'initial' else (2 if t.src.kind == 'history' else 0)
        def arr(xs): return '{' + ', '.join(str(x) for x in xs) + '}'
        s = []
        s.append('#define R_NS %d' % ns)
        s.append('#define R_NT %d' % nt)
        s.append('static const ref_chart %s = { %d, %d,' % (var, ns, nt))
        s.append('  /* kind   */ %s,' % arr(kind))
        s.append('  /* parent */ %s,' % arr(parent))
        s.append('  /* init_targets */ %s,' % arr(initt))
        s.append('  /* init_trans   */ %s,' % arr(initr))
        s.append('  /* hist_trans   */ %s,' % arr(histr))
        s.append('  /* tsrc  */ %s,' % arr([t.src.idx for t in self.trans] or [0]))
        s.append('  /* ttgt  */ %s,' % arr([mask(t.targets) for t in self.trans] or [0]))
        s.append('  /* tkind */ %s,' % arr([tk(t) for t in self.trans] or [0]))
        s.append('  /* tinternal  */ %s,' % arr([int(t.internal) for t in self.trans] or [0]))
        s.append('  /* teventless */ %s };' % arr([int(not t.event) for t in self.trans] or [0]))
        s.append('static const unsigned char %s_n_onentry[%d] = %s;' % (var, ns, arr([n.n_onentry for n in self.nodes])))
        s.append('static const unsigned char %s_n_onexit[%d] = %s;' % (var, ns, arr([n.n_onexit for n in self.nodes])))
        s.append('static const unsigned char %s_invoke[%d] = %s;' % (var, ns, arr([int(n.invoke) for n in self.nodes])))
        s.append('static const unsigned char %s_tcontent[%d] = %s;' % (var, max(nt, 1), arr([int(t.content) for t in self.trans] or [0])))
        s.append('static const unsigned char %s_tcond[%d] = %s;' % (var, max(nt, 1), arr([int(t.cond) for t in self.trans] or [0])))
        return '\n'.join(s) + '\n'

    def describe(self):
        def d(n):
            k = {'scxml': 'scxml', 'state': 'S', 'parallel': 'P', 'final': 'F', 'history': 'Hd' if n.deep else 'Hs', 'initial': 'I'}[n.kind]
            t = ''.join('[%s%s%s->%s]' % ('e' if t.event else '', 'c' if t.cond else '', 'i' if t.internal else '',
                                          ','.join(str(x.idx) for x in t.targets)) for t in n.trans)
            ia = ('init=' + ','.join(str(x.idx) for x in n.initial_attr)) if n.initial_attr else ''
            inner = ' '.join(d(c) for c in n.children)
            return '%s%d%s%s%s' % (k, n.idx, ia, t, ('(' + inner + ')') if inner else '')
        return d(self.root)


# ---------------------------------------------------------------------- validity helpers
def lca_proper(a, b):
    aa = [a] + a.ancestors()
    for x in [b] + b.ancestors():
        if x in aa:
            return x
    return None


def orthogonal(a, b):
    """a and b can be active together and neither is an ancestor of the other: their LCA is a parallel."""
    if a is b or a in b.ancestors() or b in a.ancestors():
        return False
    l = lca_proper(a, b)
    return l is not None and l.kind == 'parallel'


def legal_target_set(ts):
    def eff(t):  # a history stands for its parent's subtree
        return t.parent if t.kind == 'history' else t
    for a, b in itertools.combinations(ts, 2):
        if not orthogonal(eff(a), eff(b)):
            return False
    return True


# ---------------------------------------------------------------------- structural predicates of known findings
def nested_history_under_deep(chart):
    """a deep history whose parent has another history state further down (known finding: uscxml keeps one
    shared bit set for all histories and derives per-history masks that are wrong / differ per back-end here)"""
    hs = [n for n in chart.nodes if n.kind == 'history']
    for h in hs:
        if not h.deep: continue
        for g in hs:
            if g is not h and h.parent in g.parent.ancestors():
                return True
    return False


def targetless_in_composite(chart):
    """a transition without target in a state that has child states"""
    return any((not t.targets) and t.src.proper_children() for t in chart.trans if t.src.kind in ('state', 'parallel'))


def has_invoke(chart):
    return any(n.invoke for n in chart.nodes)


def parallel_in_parallel(chart):
    """a parallel state below another parallel state (both can complete in the same micro step)"""
    return any(n.kind == 'parallel' and any(a.kind == 'parallel' for a in n.ancestors()) for n in chart.nodes)


FINDING_PREDICATES = {'nested_history_under_deep': nested_history_under_deep, 'targetless_in_composite': targetless_in_composite,
                      'has_invoke': has_invoke, 'parallel_in_parallel': parallel_in_parallel}


# ---------------------------------------------------------------------- random generation
def random_chart(rng, max_states=6, max_trans=5, p_hist=0.35, p_par=0.3, p_final=0.25, p_initial_elem=0.3,
                 p_content=0.5, p_invoke=0.15, name='rnd'):
    root = Node('scxml')
    budget = [rng.randint(2, max_states)]
    def grow(parent, depth):
        nkids = rng.randint(1, 3) if parent.kind != 'parallel' else rng.randint(2, 3)
        for _ in range(nkids):
            if budget[0] <= 0: break
            r = rng.random()
            if parent.kind == 'parallel':
                kind = 'parallel' if (r < p_par * 0.5 and depth < 2) else 'state'
            else:
                kind = 'parallel' if (r < p_par and depth < 2) else ('final' if r < p_par + p_final else 'state')
            n = parent.add(Node(kind)); budget[0] -= 1
            if kind in ('state', 'parallel') and depth < 3 and budget[0] > 0 and (kind == 'parallel' or rng.random() < 0.45):
                grow(n, depth + 1)
    grow(root, 0)
    if not root.proper_children():
        root.add(Node('state'))
    # a chart consisting only of finals is legal but boring; make sure there is one non-final top state
    if all(c.kind == 'final' for c in root.proper_children()):
        root.children.insert(0, Node('state')); root.children[0].parent = root
    # parallel needs >= 1 child state
    for n in [root] + root.descendants():
        if n.kind == 'parallel' and not n.proper_children():
            n.add(Node('state')); n.add(Node('state'))
    # history + initial pseudo states
    for n in [root] + root.descendants():
        if n.kind in ('state', 'parallel') and n.proper_children() and rng.random() < p_hist:
            h = Node('history', deep=rng.random() < 0.5)
            pos = rng.randint(0, len(n.children)); h.parent = n; n.children.insert(pos, h)
    for n in root.descendants():
        if n.kind == 'state' and n.proper_children() and rng.random() < p_initial_elem:
            i = Node('initial'); i.parent = n; n.children.insert(rng.randint(0, len(n.children)), i)
    allnodes = [root] + root.descendants()
    proper = [n for n in allnodes if n.kind in ('state', 'parallel', 'final')]
    # pseudo-state transitions
    for n in allnodes:
        if n.kind == 'initial':
            cands = [d for d in n.parent.descendants() if d.kind in ('state', 'parallel', 'final') ]
            tg = [rng.choice(n.parent.proper_children())] if rng.random() < 0.7 else [rng.choice(cands)]
            n.trans.append(Trans(tg, content=rng.random() < p_content))
        elif n.kind == 'history':
            if n.deep and rng.random() < 0.5:
                cands = [d for d in n.parent.descendants() if d.kind in ('state', 'parallel', 'final')]
            else:
                cands = n.parent.proper_children()
            if n.parent.kind == 'parallel' and not n.deep:
                tg = list(n.parent.proper_children())
            else:
                tg = [rng.choice(cands)]
            n.trans.append(Trans(tg, content=rng.random() < p_content))
    # initial attributes
    for n in allnodes:
        if n.is_compound() and not any(c.kind == 'initial' for c in n.children) and rng.random() < 0.5:
            cands = [d for d in n.descendants() if d.kind in ('state', 'parallel', 'final')]
            if rng.random() < 0.7:
                n.initial_attr = [rng.choice(n.proper_children())]
            else:
                a = rng.choice(cands); ts = [a]
                b = rng.choice(cands)
                if orthogonal(a, b): ts.append(b)
                n.initial_attr = ts
    # ordinary transitions
    srcs = [n for n in proper if n.kind != 'final']
    tgts = [n for n in allnodes if n.kind in ('state', 'parallel', 'final', 'history')]
    nt = rng.randint(1, max_trans)
    for _ in range(nt):
        if not srcs: break
        s = rng.choice(srcs)
        r = rng.random()
        if r < 0.15: tg = []
        elif r < 0.85: tg = [rng.choice(tgts)]
        else:
            a = rng.choice(tgts); b = rng.choice(tgts); tg = [a, b] if legal_target_set([a, b]) else [a]
        t = Trans(tg, event=rng.random() < 0.6, cond=rng.random() < 0.5, internal=rng.random() < 0.25, content=rng.random() < p_content)
        s.trans.append(t)
    for n in proper:
        n.n_onentry = rng.choice([0, 0, 1, 1, 2]) if rng.random() < p_content + 0.2 else 0
        n.n_onexit = rng.choice([0, 0, 1, 1, 2]) if rng.random() < p_content + 0.2 else 0
        if n.kind != 'final' and rng.random() < p_invoke: n.invoke = True
        n.trans_after_children = rng.random() < 0.2
    return Chart(root, name)


# ---------------------------------------------------------------------- corpus: structure of an existing document
def from_scxml(path, name=None):
    tree = ET.parse(path)
    r = tree.getroot()
    def tag(e): return e.tag.split('}')[-1]
    if tag(r) != 'scxml': raise ValueError('not scxml')
    byid = {}
    pend = []
    def build(e, kind):
        n = Node(kind, deep=(e.get('type') == 'deep'))
        if e.get('id'): byid[e.get('id')] = n
        seen_child_state = False
        for ch in e:
            t = tag(ch)
            if t in ('state', 'parallel', 'final', 'history', 'initial'):
                n.add(build(ch, t)); seen_child_state = True
            elif t == 'transition':
                tr = Trans([], event=ch.get('event') is not None, cond=ch.get('cond') is not None,
                           internal=ch.get('type') == 'internal', content=len(list(ch)) > 0)
                pend.append((tr, (ch.get('target') or '').split()))
                n.trans.append(tr)
                if seen_child_state: n.trans_after_children = True
            elif t == 'onentry': n.n_onentry += 1
            elif t == 'onexit': n.n_onexit += 1
            elif t == 'invoke': n.invoke = True
        if e.get('initial'):
            pend.append((n, e.get('initial').split()))
        return n
    root = build(r, 'scxml')
    for obj, ids in pend:
        ts = [byid[i] for i in ids if i in byid]
        if len(ts) != len(ids): raise ValueError('dangling target')
        if isinstance(obj, Trans): obj.targets = ts
        else: obj.initial_attr = ts
    # nested <scxml> inside invoke/content are ignored (only the top machine's structure is kept)
    return Chart(root, name or os.path.basename(path).replace('.', '_'))


# ---------------------------------------------------------------------- hand-written feature charts
def feature_charts():
    out = []
    # 1. compound + parallel + final, done events
    r = Node('scxml'); a = r.add(Node('state')); a1 = a.add(Node('state')); a2 = a.add(Node('final'))
    p = r.add(Node('parallel')); b = p.add(Node('state')); b1 = b.add(Node('state')); bf = b.add(Node('final'))
    c = p.add(Node('state')); c1 = c.add(Node('state')); cf = c.add(Node('final')); f = r.add(Node('final'))
    a1.trans.append(Trans([a2], event=True)); a.trans.append(Trans([p], event=True, cond=True, content=True))
    b1.trans.append(Trans([bf], event=True)); c1.trans.append(Trans([cf], event=True)); p.trans.append(Trans([f], event=True))
    for n in (a, a1, p, b, c): n.n_onentry = 1; n.n_onexit = 1
    out.append(Chart(r, 'feat_done'))
    # 2. history (deep + shallow) with defaults
    r = Node('scxml'); a = r.add(Node('state')); h = a.add(Node('history', deep=True)); a1 = a.add(Node('state')); a11 = a1.add(Node('state')); a12 = a1.add(Node('state')); a2 = a.add(Node('state'))
    b = r.add(Node('state'))
    h.trans.append(Trans([a12], content=True)); a11.trans.append(Trans([a12], event=True)); a12.trans.append(Trans([a2], event=True))
    a.trans.append(Trans([b], event=True)); b.trans.append(Trans([h], event=True)); a2.trans.append(Trans([h], event=True, cond=True))
    for n in (a, a1, a11, a12, a2, b): n.n_onentry = 1; n.n_onexit = 1
    out.append(Chart(r, 'feat_hist_deep'))
    r = Node('scxml'); a = r.add(Node('state')); a1 = a.add(Node('state')); a2 = a.add(Node('state')); h = a.add(Node('history')); b = r.add(Node('state'))
    h.trans.append(Trans([a2])); a1.trans.append(Trans([a2], event=True)); a.trans.append(Trans([b], event=True)); b.trans.append(Trans([h], event=True))
    out.append(Chart(r, 'feat_hist_shallow'))
    # 3. targetless + internal transitions, ancestor and descendant
    r = Node('scxml'); a = r.add(Node('state')); a1 = a.add(Node('state')); a2 = a.add(Node('state'))
    a.trans.append(Trans([], event=True, content=True)); a1.trans.append(Trans([], event=True, content=True))
    a.trans.append(Trans([a2], event=True, internal=True)); a2.trans.append(Trans([a], event=True))
    for n in (a, a1, a2): n.n_onentry = 1; n.n_onexit = 1
    out.append(Chart(r, 'feat_targetless_internal'))
    # 4. parallel with targetless in region and ancestor, eventless transitions
    r = Node('scxml'); p = r.add(Node('parallel')); x = p.add(Node('state')); x1 = x.add(Node('state')); x2 = x.add(Node('state')); y = p.add(Node('state')); y1 = y.add(Node('state')); f = r.add(Node('final'))
    p.trans.append(Trans([], event=True, content=True)); y1.trans.append(Trans([], event=True, content=True))
    x1.trans.append(Trans([x2], cond=True)); x2.trans.append(Trans([f], event=True)); p.invoke = True; x.invoke = True
    for n in (p, x, x1, y1): n.n_onentry = 1; n.n_onexit = 2
    out.append(Chart(r, 'feat_parallel_targetless'))
    # 5. <initial> element with content, initial attribute deep, multi-target
    r = Node('scxml'); a = r.add(Node('state')); i = a.add(Node('initial')); a1 = a.add(Node('state')); a2 = a.add(Node('state'))
    p = r.add(Node('parallel')); q1 = p.add(Node('state')); q11 = q1.add(Node('state')); q12 = q1.add(Node('state')); q2 = p.add(Node('state')); q21 = q2.add(Node('state')); q22 = q2.add(Node('state'))
    i.trans.append(Trans([a2], content=True)); a2.trans.append(Trans([q12, q22], event=True)); r.initial_attr = [a]
    q12.trans.append(Trans([a1], event=True)); p.initial_attr = None
    out.append(Chart(r, 'feat_initial_multitarget'))
    # 6. transition whose domain is the LAST child of a compound that is a (non-last) region of a parallel
    r = Node('scxml'); p = r.add(Node('parallel')); a = p.add(Node('state')); a0 = a.add(Node('state')); a1 = a.add(Node('state')); a11 = a1.add(Node('state')); a12 = a1.add(Node('state'))
    b = p.add(Node('state')); b1 = b.add(Node('state')); b2 = b.add(Node('state'))
    a11.trans.append(Trans([a12], event=True)); a0.trans.append(Trans([a1], event=True)); b1.trans.append(Trans([b2], event=True, cond=True)); a12.trans.append(Trans([a0], event=True))
    for n in (a, a1, a11, a12, b, b1, b2): n.n_onentry = 1; n.n_onexit = 1
    out.append(Chart(r, 'feat_last_child_domain'))
    return out



def structural_charts():
    """Documents used by the structural-table check (C05) only: shapes whose tables depend on a rarely met clause of the
    recommendation.  Kept apart from feature_charts() so that the behavioural checks' scenario sets stay as they are."""
    out = []
    # 1. internal transition whose source is a PARALLEL state and whose target is a proper descendant: the domain is
    #    the nearest compound ancestor (the narrowing applies to compound sources only), the parallel itself is exited
    r = Node('scxml'); top = r.add(Node('state')); p = top.add(Node('parallel')); r1 = p.add(Node('state')); r1a = r1.add(Node('state')); r1b = r1.add(Node('state'))
    r2 = p.add(Node('state')); r2a = r2.add(Node('state'))
    p.trans.append(Trans([r1b], event=True, internal=True)); r1a.trans.append(Trans([r1b], event=True))
    out.append(Chart(r, 'struct_internal_parallel_source'))
    # 2. the same directly below <scxml>, with a second, external transition from a region (conflict relation)
    r = Node('scxml'); p = r.add(Node('parallel')); a = p.add(Node('state')); a1 = a.add(Node('state')); a2 = a.add(Node('state')); b = p.add(Node('state')); b1 = b.add(Node('state')); b2 = b.add(Node('state'))
    p.trans.append(Trans([a2, b2], event=True, internal=True)); b1.trans.append(Trans([b2], event=True)); a.trans.append(Trans([a2], event=True, internal=True))
    out.append(Chart(r, 'struct_internal_parallel_root'))
    # 3. internal transition on a compound source with one target outside the source (no narrowing), and on an atomic source
    r = Node('scxml'); a = r.add(Node('state')); a1 = a.add(Node('state')); a2 = a.add(Node('state')); c = r.add(Node('state'))
    a.trans.append(Trans([c], event=True, internal=True)); a1.trans.append(Trans([a2], event=True, internal=True)); a2.trans.append(Trans([a2], event=True, internal=True))
    out.append(Chart(r, 'struct_internal_outside'))
    return out


def corpus_charts(repo, max_states=24, max_trans=16, dirs=('test/w3c/null', 'test/w3c/lua', 'test/w3c/promela', 'test/uscxml')):
    import glob
    out = []
    seen = set()
    for d in dirs:
        for f in sorted(glob.glob(os.path.join(repo, d, '*.scxml'))):
            try:
                c = from_scxml(f, name=re.sub(r'[^A-Za-z0-9]', '_', os.path.relpath(f, repo)))
            except Exception:
                continue
            if len(c.nodes) > max_states or len(c.trans) > max_trans: continue
            key = c.describe()
            if key in seen: continue
            seen.add(key); out.append(c)
    return out


if __name__ == '__main__':
    rng = random.Random(int(sys.argv[1]) if len(sys.argv) > 1 else 1)
    c = random_chart(rng)
    print(c.describe()); print(c.to_xml()); print(c.facts_c())
