"""Emitted ANSI-C machines: transpile a chart with the freshly built uscxml-transform and prepare
the facts header for the CBMC harness (harness/c04_step.c)."""
import os, re
from common import *


def transform(kind, scxml_path, out_path, extra=()):
    tool = os.path.join(BUILD, 'bin', 'uscxml-transform')
    p = sh([tool, '-t' + kind, '-i', scxml_path, '-o', out_path] + list(extra), env=lib_env(), check=False, timeout=120)
    if p.returncode != 0 or not os.path.exists(out_path) or os.path.getsize(out_path) == 0:
        raise InfraError('uscxml-transform -t%s failed on %s:\n%s' % (kind, scxml_path, p.stdout[-2000:]))
    return out_path


def parse_emitted_c(path):
    """Return dict(machine=symbol, trans=[(source, event|None, cond|None, type)], nstates=int) from emitted C text."""
    txt = open(path).read()
    m = re.search(r'const uscxml_machine (\w+__machine) = \{', txt) or re.search(r'extern const uscxml_machine (\w+);', txt)
    if not m:
        raise InfraError('cannot find the machine symbol in ' + path)
    machine = m.group(1)
    tm = re.search(r'static const uscxml_transition \w+__transitions\[(\d+)\] = \{(.*?)\n\};', txt, re.S)
    trans = []
    if tm:
        for e in re.finditer(r'/\* source\s+\*/ (\d+),.*?/\* event\s+\*/ (NULL|"[^"]*"),\s*/\* condition\s+\*/ (NULL|"[^"]*"),.*?/\* type\s+\*/ ([^,]+),', tm.group(2), re.S):
            ev = None if e.group(2) == 'NULL' else e.group(2).strip('"')
            cd = None if e.group(3) == 'NULL' else e.group(3).strip('"')
            trans.append((int(e.group(1)), ev, cd, e.group(4).strip()))
        if len(trans) != int(tm.group(1)):
            raise InfraError('parsed %d of %s emitted transitions in %s' % (len(trans), tm.group(1), path))
    sm = re.search(r'static const uscxml_state \w+__states\[(\d+)\] = \{(.*?)\n\};', txt, re.S)
    states = []
    if sm:
        for e in re.finditer(r'/\* name\s+\*/ (NULL|"[^"]*"),\s*/\* parent\s+\*/ (\d+),.*?/\* type\s+\*/ ([^,\n]+),', sm.group(2), re.S):
            states.append((None if e.group(1) == 'NULL' else e.group(1).strip('"'), int(e.group(2)), e.group(3).strip()))
        if len(states) != int(sm.group(1)):
            raise InfraError('parsed %d of %s emitted states in %s' % (len(states), sm.group(1), path))
    return dict(machine=machine, trans=trans, nstates=len(states), states=states)


def smap(chart, emitted):
    """emitted state index -> chart (document order) state index; uscxml moves pseudo-states to the front."""
    out = []
    for i, (name, parent, ty) in enumerate(emitted['states']):
        if i == 0:
            out.append(0); continue
        if name is not None and re.fullmatch(r'[sh]\d+', name):
            out.append(int(name[1:])); continue
        if name is None and 'INITIAL' in ty:
            par = chart.nodes[out[parent]]
            c = [x.idx for x in par.children if x.kind == 'initial']
            if len(c) != 1:
                raise InfraError('cannot identify emitted <initial> state %d' % i)
            out.append(c[0]); continue
        raise InfraError('cannot identify emitted state %d (%r)' % (i, name))
    if sorted(out) != list(range(len(chart.nodes))):
        raise InfraError('state map is not a bijection: %s' % out)
    return out


def tmap(chart, emitted, smap_):
    """emitted transition index -> chart (document order) transition index."""
    out = []
    for (src, ev, cd, ty) in emitted['trans']:
        if ev is not None and re.fullmatch(r'e\d+', ev):
            out.append(int(ev[1:])); continue
        if cd is not None and re.fullmatch(r'c\d+', cd):
            out.append(int(cd[1:])); continue
        cands = [t.idx for t in chart.trans if t.src.idx == smap_[src] and not t.event and not t.cond]
        if len(cands) != 1:
            raise InfraError('cannot identify emitted transition (source %d, no event, no cond): candidates %s' % (src, cands))
        out.append(cands[0])
    if sorted(out) != list(range(len(chart.trans))):
        raise InfraError('transition map is not a bijection: %s' % out)
    return out


def normalise(chart):
    """Make transitions identifiable: at most one eventless unconditional transition per source."""
    for n in chart.nodes:
        seen = False
        for t in n.trans:
            if n.kind in ('history', 'initial'):
                continue
            if not t.event and not t.cond:
                if seen:
                    t.cond = True
                seen = True
    chart.index()
    return chart


def prepare(chart, W, tag):
    """Write <tag>.scxml, transpile to <tag>.c, write <tag>_facts.h.  Returns (genc, facts)."""
    normalise(chart)
    sx = os.path.join(W, tag + '.scxml')
    open(sx, 'w').write(chart.to_xml())
    gc = transform('c', sx, os.path.join(W, tag + '.c'))
    em = parse_emitted_c(gc)
    if em['nstates'] != len(chart.nodes):
        raise InfraError('%s: emitted C has %d states, chart has %d' % (tag, em['nstates'], len(chart.nodes)))
    sm_ = smap(chart, em)
    tm = tmap(chart, em, sm_)
    proper = sum(1 << n.idx for n in chart.nodes if n.kind in ('scxml', 'state', 'parallel', 'final'))
    fh = os.path.join(W, tag + '_facts.h')
    with open(os.path.join(W, tag + '_pre.h'), 'w') as f:
        f.write('#define R_MAXACT %d\n#define R_MAXS %d\n#define R_MAXT %d\n' % (4 * len(chart.nodes) + len(chart.trans) + 4, len(chart.nodes), max(1, len(chart.trans))))
    with open(fh, 'w') as f:
        f.write('/* %s: %s */\n' % (chart.name, chart.describe()))
        f.write(chart.facts_c('CH'))
        f.write('#define MACHINE %s\n' % em['machine'])
        f.write('#define PROPER_MASK 0x%xu\n' % proper)
        f.write('static const unsigned char TMAP[%d] = {%s};\n' % (max(1, len(tm)), ', '.join(str(x) for x in tm) or '0'))
        f.write('static const unsigned char SMAP[%d] = {%s};\n' % (len(sm_), ', '.join(str(x) for x in sm_)))
    return gc, fh


def dequeue_loop(gc, fh, pre):
    """Name of the `goto DEQUEUE_EVENT` back-edge loop in the emitted uscxml_step (bounded per --unwindset)."""
    p = sh(['cbmc', VERIF + '/harness/c04_step.c', '-I', VERIF + '/spec', '-DGENC="%s"' % gc, '-DFACTS="%s"' % fh,
            '-DFACTS_PRE="%s"' % pre, '-DMODE=1', '--show-loops'], check=False, timeout=120)
    lns = [i + 1 for i, l in enumerate(open(gc)) if 'goto DEQUEUE_EVENT;' in l]
    for ln in lns:
        m = re.search(r'Loop (uscxml_step\.\d+):\n\s+file \S+ line %d ' % ln, p.stdout)
        if m:
            return m.group(1)
    raise InfraError('cannot find the dequeue loop of the emitted uscxml_step:\n' + p.stdout[-1500:])


def step_query(gc, fh, mode, kev=2, variant=0, dvariant=None, witness=False, timeout=900, trace=False, extra_defs=(), mem_gb=12):
    pre = fh.replace('_facts.h', '_pre.h')
    lp = dequeue_loop(gc, fh, pre)
    defs = ['GENC="%s"' % gc, 'FACTS="%s"' % fh, 'FACTS_PRE="%s"' % pre, 'MODE=%d' % mode, 'KEV=%d' % kev, 'VARIANT=%d' % variant,
            'DVARIANT=%d' % (variant if dvariant is None else dvariant)]
    if witness:
        defs.append('WITNESS')
    defs += list(extra_defs)
    return cbmc(VERIF + '/harness/c04_step.c', ['--unwind', '40', '--unwindset', '%s:%d' % (lp, kev + 3)], defs,
                includes=[VERIF + '/spec'], timeout=timeout, trace=trace, mem_gb=mem_gb)


def cex_inputs(out, ns, nt, kev):
    """Extract the harness inputs (cex_* globals) from a cbmc --trace output."""
    v = trace_values(out)
    nsb = (ns + 7) // 8
    g = lambda name, d=0: trace_int(v.get(name, str(d)))
    r = {
        'matched': [[g('cex_matched[%d][%d]' % (k, t)) for t in range(nt + 1)] for k in range(kev + 1)],
        'cond': [[g('cex_cond[%d][%d]' % (k, t)) for t in range(nt + 1)] for k in range(kev + 1)],
        'failN': [[g('cex_failN[%d][%d]' % (s, b)) for b in range(2)] for s in range(ns)],
        'failX': [[g('cex_failX[%d][%d]' % (s, b)) for b in range(2)] for s in range(ns)],
        'failT': [g('cex_failT[%d]' % t) for t in range(nt + 1)],
        'iq': g('cex_iq'), 'eq': g('cex_eq'),
        'config': [g('cex_config[%d]' % i) for i in range(nsb)], 'history': [g('cex_history[%d]' % i) for i in range(nsb)],
        'invocations': [g('cex_invocations[%d]' % i) for i in range(nsb)], 'initialized': [g('cex_initialized[%d]' % i) for i in range(nsb)],
        'flags': g('cex_flags'),
    }
    return r


def replay_header(inp, path):
    def a2(x): return '{' + ', '.join('{' + ', '.join(str(v) for v in row) + '}' for row in x) + '}'
    def a1(x): return '{' + ', '.join(str(v) for v in x) + '}'
    with open(path, 'w') as f:
        f.write('static const unsigned char rv_matched[%d][%d] = %s;\n' % (len(inp['matched']), len(inp['matched'][0]), a2(inp['matched'])))
        f.write('static const unsigned char rv_cond[%d][%d] = %s;\n' % (len(inp['cond']), len(inp['cond'][0]), a2(inp['cond'])))
        f.write('static const unsigned char rv_failN[%d][2] = %s;\n' % (len(inp['failN']), a2(inp['failN'])))
        f.write('static const unsigned char rv_failX[%d][2] = %s;\n' % (len(inp['failX']), a2(inp['failX'])))
        f.write('static const unsigned char rv_failT[%d] = %s;\n' % (len(inp['failT']), a1(inp['failT'])))
        f.write('static const int rv_iq = %d, rv_eq = %d;\n' % (inp['iq'], inp['eq']))
        for k in ('config', 'history', 'invocations', 'initialized'):
            f.write('static const unsigned char rv_%s[%d] = %s;\n' % (k, len(inp[k]), a1(inp[k])))
        f.write('static const unsigned char rv_flags = %d;\n' % inp['flags'])
    return path


def native_replay(gc, fh, mode, inp, W, tag, kev=2, variant=0, dvariant=None):
    """Compile the same harness natively (gcc, ASan+UBSan) around the real emitted C with the concrete inputs."""
    pre = fh.replace('_facts.h', '_pre.h')
    rh = replay_header(inp, os.path.join(W, tag + '_replay.h'))
    exe = os.path.join(W, tag + '_replay')
    sh(['gcc', '-g', '-O0', '-w', '-fsanitize=address,undefined', '-I' + VERIF + '/spec', '-DGENC="%s"' % gc, '-DFACTS="%s"' % fh,
        '-DFACTS_PRE="%s"' % pre, '-DMODE=%d' % mode, '-DKEV=%d' % kev, '-DVARIANT=%d' % variant, '-DDVARIANT=%d' % (variant if dvariant is None else dvariant), '-DREPLAY="%s"' % rh,
        VERIF + '/harness/c04_step.c', '-o', exe], timeout=300)
    p = sh([exe], check=False, timeout=60)
    fails = re.findall(r'REPLAY-FAIL: (.*)', p.stdout)
    return dict(returncode=p.returncode, fails=fails, out=p.stdout[-3000:], sanitizer=('ERROR: AddressSanitizer' in p.stdout or 'runtime error' in p.stdout))
