"""Interpreter engines (FastMicroStep, LargeMicroStep) under CBMC: Route B.
  doc.scxml --(real init(), native)--> dump --> constant tables header
  engine_<e>.cpp + <Engine>MicroStep.cpp --clang++-14--> IR --llvm-link--> ir2c --> C  (+ models)
  harness/engine_main.c: symbolic pre-state, reference driver, hooks with order checks  --> cbmc
"""
import os, re
from common import *
import chartgen, genc

MODELS = ['strmodels.txt', 'cxx.list', 'bitset.list', 'event.list']
NOOPS = [r'^_ZN6uscxml6Logger', r'^_ZN6uscxml12StreamLogger', r'^_ZN6uscxml16InterpreterIssueC', r'^_ZNSt10shared_ptrIN6uscxml10LoggerImpl', r'^_ZN6uscxmllsERSoRKNS_5EventE',
         r'^_ZNSt12__shared_ptrIN6uscxml10LoggerImpl', r'^_ZNSt12__shared_countILN9__gnu_cxx12_Lock_policyE2EED', r'^_ZNSolsE', r'^_ZSt4endl']
STUBS_LARGE = [r'^_ZN6uscxml14LargeMicroStep4initE', r'^_ZN6uscxml14LargeMicroStep11deserializeE', r'^_ZN6uscxml14LargeMicroStep9serializeE',
               r'^_ZN6uscxml14LargeMicroStep16getConfigurationB', r'^_ZN6uscxml14LargeMicroStep9isInStateE', r'^_ZN6uscxml14LargeMicroStepD', r'^_ZN6uscxml14LargeMicroStep6createE',
               r'^_ZN6uscxml14LargeMicroStep13getCompletionE', r'^_ZN6uscxml14LargeMicroStep20getHistoryCompletionE', r'^_ZN6uscxml14LargeMicroStep12resortStatesE']
STUBS = [r'^_ZN6uscxml13FastMicroStep4initE', r'^_ZN6uscxml13FastMicroStep11deserializeE', r'^_ZN6uscxml13FastMicroStep9serializeE',
         r'^_ZN6uscxml13FastMicroStep16getConfigurationE', r'^_ZN6uscxml13FastMicroStep9isInStateE', r'^_ZN6uscxml13FastMicroStepD', r'^_ZN6uscxml13FastMicroStep6createE']

_dump_lock = threading.Lock()


def build_dump_tool():
    exe = os.path.join(WORKROOT, 'tools', 'engine_dump')
    with _dump_lock:
        os.makedirs(os.path.dirname(exe), exist_ok=True)
        native_build(['lib/libuscxml.so'])
        src = VERIF + '/harness/engine_dump.cpp'
        lib = os.path.join(BUILD, 'lib', 'libuscxml.so')
        if not os.path.exists(exe) or os.path.getmtime(exe) < max(os.path.getmtime(src), os.path.getmtime(lib)):
            native_compile([src], exe)
    return exe


def dump(engine, scxml_path):
    exe = build_dump_tool()
    p = sh([exe, engine, scxml_path], env=lib_env(), check=False, timeout=60)
    if p.returncode != 0 or 'EXCEPTION' in p.stdout:
        raise InfraError('engine_dump %s failed on %s: %s' % (engine, scxml_path, p.stdout[-600:]))
    S, T, meta = [], [], {}
    for ln in p.stdout.splitlines():
        kv = dict(x.split('=', 1) for x in ln.split()[2:] if '=' in x) if ln[:2] in ('S ', 'T ') else {}
        if ln.startswith('S '): S.append(kv)
        elif ln.startswith('T '): T.append(kv)
        elif ln.startswith('VALIDATE'): meta['fatal'] = int(re.search(r'fatal=(\d+)', ln).group(1))
        elif ln.startswith(('FAST', 'LARGE')): meta['binding'] = int(re.search(r'binding=(\d+)', ln).group(1))
    return S, T, meta


def maps(chart, S, T):
    sm = []
    for i, s in enumerate(S):
        if i == 0: sm.append(0); continue
        if re.fullmatch(r'[sh]\d+', s['id']): sm.append(int(s['id'][1:])); continue
        if s['tag'] == 'initial':
            par = chart.nodes[sm[int(s['parent'])]]
            c = [x.idx for x in par.children if x.kind == 'initial']
            if len(c) != 1: raise InfraError('cannot identify <initial> state %d' % i)
            sm.append(c[0]); continue
        raise InfraError('cannot identify engine state %d (%r)' % (i, s))
    if sorted(sm) != list(range(len(chart.nodes))): raise InfraError('engine state map is not a bijection: %s' % sm)
    tm = []
    for t in T:
        if re.fullmatch(r'e\d+', t['event']): tm.append(int(t['event'][1:])); continue
        if re.fullmatch(r'c\d+', t['cond']): tm.append(int(t['cond'][1:])); continue
        cands = [x.idx for x in chart.trans if x.src.idx == sm[int(t['source'])] and not x.event and not x.cond]
        if len(cands) != 1: raise InfraError('cannot identify engine transition %r' % t)
        tm.append(cands[0])
    if sorted(tm) != list(range(len(chart.trans))): raise InfraError('engine transition map is not a bijection: %s' % tm)
    return sm, tm


def tables_header(chart, S, T, meta, sm, tm, path):
    def arr(name, ty, xs): return 'static const %s %s[%d] = {%s};\n' % (ty, name, max(1, len(xs)), ', '.join(str(x) for x in xs) or '0')
    with open(path, 'w') as f:
        f.write('/* tables produced by the real init() for %s: %s */\n' % (chart.name, chart.describe()))
        f.write('#define NS %d\n#define NT %d\n#define ET_binding %d\n' % (len(S), len(T), meta.get('binding', 0)))
        f.write(arr('ET_type', 'unsigned char', [s['type'] for s in S]))
        f.write(arr('ET_parent', 'unsigned', [s['parent'] for s in S]))
        for k in ('children', 'completion', 'ancestors'):
            f.write(arr('ET_' + k, 'unsigned long long', [s[k] + 'ull' for s in S]))
        f.write(arr('ET_n_onentry', 'unsigned char', [s['onentry'] for s in S]))
        f.write(arr('ET_n_onexit', 'unsigned char', [s['onexit'] for s in S]))
        f.write(arr('ET_n_invoke', 'unsigned char', [s['invoke'] for s in S]))
        f.write(arr('ET_n_data', 'unsigned char', [s['data'] for s in S]))
        f.write(arr('ET_donedata', 'unsigned char', [s['donedata'] for s in S]))
        f.write(arr('ET_tsource', 'unsigned', [t['source'] for t in T]))
        f.write(arr('ET_ttype', 'unsigned char', [t['type'] for t in T]))
        f.write(arr('ET_ttarget', 'unsigned long long', [t['target'] + 'ull' for t in T]))
        f.write(arr('ET_tconflicts', 'unsigned long long', [t['conflicts'] + 'ull' for t in T]))
        f.write(arr('ET_tevent', 'unsigned char', [int(t['event'] != '-') for t in T]))
        f.write(arr('ET_tcond', 'unsigned char', [int(t['cond'] != '-') for t in T]))
        f.write(arr('ET_tontrans', 'unsigned char', [t['ontrans'] for t in T]))
        f.write(arr('ET_texitfirst', 'unsigned', [t.get('exitfirst', 0) for t in T]))
        f.write(arr('ET_texitlast', 'unsigned', [t.get('exitlast', 0) for t in T]))
        if S and 'trans' in S[0]:
            tl = [([] if s['trans'] == '-' else [int(x) for x in s['trans'].split(',')]) for s in S]
            mx = max([len(x) for x in tl] + [1])
            f.write(arr('ET_postfix', 'unsigned', [s['postfix'] + 'u' for s in S]))
            f.write(arr('ET_n_strans', 'unsigned char', [len(x) for x in tl]))
            f.write('static const unsigned char ET_strans[%d][%d] = {%s};\n' % (len(S), mx, ', '.join('{' + ', '.join(str(v) for v in (x + [0] * (mx - len(x)))) + '}' for x in tl)))
    return path


def facts_header(chart, sm, tm, path):
    proper = sum(1 << n.idx for n in chart.nodes if n.kind in ('scxml', 'state', 'parallel', 'final'))
    with open(path, 'w') as f:
        f.write(chart.facts_c('CH'))
        f.write('#define PROPER_MASK 0x%xu\n' % proper)
        f.write('static const unsigned char TMAP[%d] = {%s};\n' % (max(1, len(tm)), ', '.join(str(x) for x in tm) or '0'))
        f.write('static const unsigned char SMAP[%d] = {%s};\n' % (len(sm), ', '.join(str(x) for x in sm)))
    with open(path.replace('_facts.h', '_pre.h'), 'w') as f:
        f.write('#define R_MAXACT 8\n#define R_MAXS %d\n#define R_MAXT %d\n' % (len(chart.nodes), max(1, len(chart.trans))))
    return path


def lower(engine, W, tag, tables):
    """C++ harness + real engine TU -> one C file."""
    src = {'fast': 'FastMicroStep.cpp', 'large': 'LargeMicroStep.cpp'}[engine]
    ll_engine = os.path.join(W, engine + '.ll')
    if not os.path.exists(ll_engine):
        clang_ir(REPO + '/src/uscxml/interpreter/' + src, ll_engine)
    ll_h = os.path.join(W, tag + '_h.ll')
    clang_ir(VERIF + '/harness/engine_%s.cpp' % engine, ll_h, extra=['-DENGINE_TABLES="%s"' % tables])
    ll_all = os.path.join(W, tag + '_all.ll')
    llvm_link([ll_h, ll_engine], ll_all)
    out = os.path.join(W, tag + '_eng.c')
    roots = ['eng_build', 'eng_set', 'eng_get', 'eng_step', 'eng_cancel', 'eng_reset', 'eng_descr_addr', 'eng_cond_addr']
    ir2c(ll_all, roots, out, models=[VERIF + '/models/' + m for m in MODELS] + [VERIF + '/models/hooks.list'], stubs=STUBS if engine == 'fast' else STUBS_LARGE, noops=NOOPS)
    return out


def unmodelled(cfile):
    src = open(cfile).read()
    return sorted(set(re.findall(r'IR_UNMODELLED\("([^"]+)"\)', src.split('/* ---- functions */')[1])))


def prepare(engine, chart, W, tag):
    genc.normalise(chart)
    sx = os.path.join(W, tag + '.scxml')
    open(sx, 'w').write(chart.to_xml())
    S, T, meta = dump(engine, sx)
    if meta.get('fatal'):
        raise InfraError('%s: the validator reports a fatal issue for a generated document' % tag)
    sm, tm = maps(chart, S, T)
    tb = tables_header(chart, S, T, meta, sm, tm, os.path.join(W, tag + '_tables.h'))
    fh = facts_header(chart, sm, tm, os.path.join(W, tag + '_facts.h'))
    ec = lower(engine, W, tag, tb)
    return ec, fh, tb


def step_query(ec, fh, mode, variant=0, dvariant=None, witness=False, timeout=900, trace=False, chk=63, prop_beh='C01', with_mon=1, extra_defs=(), mem_gb=16, unwind=40):
    pre = fh.replace('_facts.h', '_pre.h')
    defs = ['ENGINE_C="%s"' % ec, 'FACTS="%s"' % fh, 'FACTS_PRE="%s"' % pre, 'MODE=%d' % mode, 'VARIANT=%d' % variant,
            'DVARIANT=%d' % (variant if dvariant is None else dvariant), 'CHK=%d' % chk, 'PROP_BEH="%s"' % prop_beh, 'WITH_MON=%d' % with_mon, 'SCAP=8', 'IR_POOL']
    if witness:
        defs.append('WITNESS')
    defs += list(extra_defs)
    return cbmc(VERIF + '/harness/engine_main.c', ['--unwind', str(unwind), '--object-bits', '12', '--max-field-sensitivity-array-size', '200',
                 '--unwindset', 'IR_MEMSET.0:1500,IR_MEMCPY.0:1500,IR_MEMMOVE.0:1500,IR_MEMMOVE.1:1500'], defs,
                includes=[VERIF + '/spec', VERIF + '/models', VERIF + '/harness'], timeout=timeout, trace=trace, mem_gb=mem_gb)


# ---------------------------------------------------------------------- scenario enumeration (engines)
def legal_configs(chart):
    """All legal configurations (Rec. 3.11) of the chart, as bit masks over document-order indices."""
    def below(n):
        # list of masks: legal sub-configurations with n active
        if n.kind == 'final' or not n.proper_children():
            return [1 << n.idx]
        kids = n.proper_children()
        if n.kind == 'parallel':
            out = [1 << n.idx]
            for k in kids:
                out = [a | b for a in out for b in below(k)]
            return out
        out = []
        for k in kids:
            out += [(1 << n.idx) | b for b in below(k)]
        return out
    return below(chart.root)


def scenarios(chart, rng, limit):
    nodes, trans = chart.nodes, chart.trans
    confs = legal_configs(chart)
    hists = [n for n in nodes if n.kind == 'history']
    def dom(h):
        p = h.parent
        ds = p.descendants() if h.deep else p.proper_children()
        return sum(1 << d.idx for d in ds if d.kind in ('state', 'parallel', 'final'))
    hist_opts = {0}
    for c in confs:
        m = 0
        for h in hists:
            if (c >> h.parent.idx) & 1:
                m |= c & dom(h)
        hist_opts.add(m)
    hist_opts = sorted(hist_opts)
    invs = sum(1 << n.idx for n in nodes if n.invoke)
    out = [(0, 0, 0, 0, 0, 0, 0, 0, 0)]
    def subsets(ts):
        ts = list(ts)
        if len(ts) > 4:
            picks = [0, sum(1 << t for t in ts)] + [1 << t for t in ts] + [sum(1 << t for t in rng.sample(ts, 2)) for _ in range(4)]
            return sorted(set(picks))
        res = [0]
        for t in ts:
            res += [r | (1 << t) for r in res]
        return res
    for c in confs:
        act = [t.idx for t in trans if t.src.kind not in ('history', 'initial') and (c >> t.src.idx) & 1]
        ev = [t for t in act if trans[t].event]
        evl_c = [t for t in act if not trans[t].event and trans[t].cond]
        inv_opts = sorted({0, c & invs, (c & invs) | (invs & ~c & -(invs & ~c)) if (invs & ~c) else (c & invs)})
        topfinal = any(n.kind == 'final' and n.parent is chart.root and (c >> n.idx) & 1 for n in nodes)
        for h in hist_opts:
            for iv in inv_opts:
                for E in subsets(evl_c):
                    out.append((c, h, iv, c, 0x03, E, 0, 0, 0))
                for E in subsets(ev):
                    out.append((c, h, iv, c, 0x02, E, 1, 0, 0))      # internal event pending
                    out.append((c, h, iv, c, 0x22, E, 0, 1, 0))      # stable, external event pending
                    out.append((c, h, iv, c, 0x22, E, 1, 1, 0))      # stable, and an internal event arrived from outside (delayed #_internal send, invoker) next to an external one
                out.append((c, h, iv, c, 0x02, 0, 0, 1, 0))          # queue empty, macrostep not yet reported
                out.append((c, h, iv, c, 0x22, 0, 0, 0, 0))          # idle
                out.append((c, h, iv, c, 0x22, 0, 0, 0, 1))          # cancelled while idle
                out.append((c, h, iv, c, 0x26, 0, 0, 0, 1))          # the finalising step after a cancel: whole configuration and all invocations still there
                out.append((c, h, iv, c, 0x06 if not topfinal else 0x07, 0, 0, 0, 0))
                out.append((c, h, iv, c, 0x16, 0, 0, 0, 0))
    out = sorted(set(out))
    if len(out) > limit:
        keep = out[:1] + rng.sample(out[1:], limit - 1)
        out = sorted(set(keep))
    return out


def scenarios_header(sc, path):
    with open(path, 'w') as f:
        f.write('#define N_SCENARIOS %d\n' % len(sc))
        for i, name in enumerate(('conf', 'hist', 'inv', 'ini', 'flags', 'enabled', 'iq', 'eq', 'cancelled')):
            f.write('static const unsigned SC_%s[%d] = {%s};\n' % (name, len(sc), ', '.join('0x%xu' % s[i] for s in sc)))
    return path


def native_run(engine, W, tag, fh, tb, sch, variant=1, dvariant=None, mode=1, chk=63, replay=None, replay_sc=None, seed=1, extra_defs=(), prop_beh='C03'):
    """Build and run the harness natively: the g++-compiled engine (libuscxml) + C++ harness + the same C driver.
    Used as translation validation (all scenarios, pseudo-random throw patterns) and to replay counterexamples."""
    pre = fh.replace('_facts.h', '_pre.h')
    obj = os.path.join(W, tag + '_main_native.o')
    defs = ['-DNATIVE', '-DFACTS="%s"' % fh, '-DFACTS_PRE="%s"' % pre, '-DSCENARIOS="%s"' % sch, '-DMODE=%d' % mode, '-DVARIANT=%d' % variant,
            '-DDVARIANT=%d' % (variant if dvariant is None else dvariant), '-DCHK=%d' % chk, '-DPROP_BEH="%s"' % prop_beh, '-DWITH_MON=1'] + ['-D' + d for d in extra_defs]
    if engine == 'large':
        defs.append('-DENGINE_LARGE')
    if replay:
        defs += ['-DREPLAY="%s"' % replay, '-DREPLAY_SC=%d' % replay_sc]
    sh(['gcc', '-g', '-O1', '-w', '-c', VERIF + '/harness/engine_main.c', '-o', obj, '-I' + VERIF + '/spec', '-I' + VERIF + '/harness'] + defs, timeout=300)
    exe = os.path.join(W, tag + '_native')
    native_compile([VERIF + '/harness/engine_%s.cpp' % engine, obj], exe, extra=['-DENGINE_TABLES="%s"' % tb])
    p = sh([exe], env=lib_env(), check=False, timeout=300)
    fails = re.findall(r'NATIVE-FAIL: (.*)', p.stdout)
    m = re.search(r'native: scenarios=(\d+) skipped=(\d+) failed=(\d+)', p.stdout)
    return dict(ok=(p.returncode == 0 and m is not None), fails=fails, out=p.stdout[-3000:], scenarios=int(m.group(1)) if m else 0)
