#!/usr/bin/env python3
"""Common machinery for the solver-based checks of uscxml.

  * scratch native build of /repo's *current working tree* (hooks on)
  * clang++-14 -> LLVM IR -> ir2c -> C   (Route B)
  * cbmc runner (timeout, memory limit, result parsing, trace extraction)
  * evidence writer, known-findings file, replay files
"""
import os, sys, re, json, time, subprocess, shutil, fcntl, resource, hashlib, threading
from concurrent.futures import ThreadPoolExecutor

REPO = os.environ.get('USCXML_REPO', '/repo')
VERIF = os.path.dirname(os.path.dirname(os.path.abspath(__file__)))
BUILD = os.environ.get('USCXML_VERIF_BUILD', '/var/tmp/uscxml-verif-build')
WORKROOT = os.environ.get('USCXML_VERIF_WORK', '/var/tmp/uscxml-verif-work')
GUARD = 'USCXML_VERIF'
NCPU = int(os.environ.get('VERIF_JOBS', str(os.cpu_count() or 4)))

INCLUDES = ['-I%s/src' % REPO, '-I%s/contrib/src' % REPO, '-I%s' % BUILD, '-I%s/contrib/src/jsmn' % REPO,
            '-I%s/contrib/src/evws' % REPO, '-I%s/contrib/src/uriparser/include' % REPO,
            '-I/usr/include/lua5.3', '-I%s/contrib/src/LuaBridge' % REPO]
DEFINES = ['-DUSCXML_EXPORT', '-DXERCESC_NS=xercesc_3_2', '-DNDEBUG', '-D' + GUARD]


class InfraError(Exception):
    """Something in the machinery (not in the code under test) failed: exit code 2."""


def log(*a):
    print(*a, flush=True)


def sh(cmd, cwd=None, timeout=None, env=None, check=True, stdin=None):
    p = subprocess.run(cmd, cwd=cwd, timeout=timeout, env=env, stdout=subprocess.PIPE, stderr=subprocess.STDOUT,
                       universal_newlines=True, input=stdin, errors='replace')
    if check and p.returncode != 0:
        raise InfraError('command failed (%d): %s\n%s' % (p.returncode, ' '.join(cmd), p.stdout[-4000:]))
    return p


def workdir(name, clean=True):
    d = os.path.join(WORKROOT, name)
    if clean and os.path.isdir(d):
        shutil.rmtree(d, ignore_errors=True)
    os.makedirs(d, exist_ok=True)
    return d


# --------------------------------------------------------------------------- native build
_build_lock = threading.Lock()


def native_build(targets=('bin/uscxml-transform',)):
    """(Re)build the given ninja targets of /repo's current working tree in the scratch
    build directory, with -DUSCXML_VERIF.  Serialised across processes by a file lock."""
    os.makedirs(BUILD, exist_ok=True)
    with _build_lock:
        with open(os.path.join(BUILD, '.verif.lock'), 'w') as lk:
            fcntl.flock(lk, fcntl.LOCK_EX)
            t0 = time.time()
            if not os.path.exists(os.path.join(BUILD, 'build.ninja')):
                sh(['cmake', '-G', 'Ninja', '-S', REPO, '-B', BUILD, '-DCMAKE_BUILD_TYPE=RelWithDebInfo',
                    '-DCMAKE_CXX_FLAGS=-Wno-error -D%s' % GUARD, '-DCMAKE_C_FLAGS=-D%s' % GUARD], timeout=600)
            p = sh(['ninja', '-C', BUILD, '-j', str(NCPU)] + list(targets), timeout=3600, check=False)
            if p.returncode != 0:
                raise InfraError('native build of /repo failed:\n' + p.stdout[-6000:])
            return time.time() - t0


def lib_env():
    e = dict(os.environ)
    e['LD_LIBRARY_PATH'] = os.path.join(BUILD, 'lib') + ':' + e.get('LD_LIBRARY_PATH', '')
    return e


NATIVE_LINK = ['-L%s/lib' % BUILD, '-Wl,-rpath,%s/lib' % BUILD, '-luscxml', '-lxerces-c', '-lpthread']


def native_compile(srcs, out, extra=(), link_transform=False, cxx='g++', std='-std=gnu++11'):
    cmd = [cxx, std, '-O1', '-g', '-w'] + DEFINES + INCLUDES + list(extra) + list(srcs) + ['-o', out] + NATIVE_LINK
    if link_transform:
        cmd += ['-luscxml_transform']
    sh(cmd, timeout=900)
    return out


# --------------------------------------------------------------------------- Route B: C++ -> IR -> C
def clang_ir(src, out_ll, extra=(), opt='-O1', noinline=True, exceptions=True):
    cmd = ['clang++-14', '-std=gnu++11', opt, '-fno-vectorize', '-fno-slp-vectorize', '-fno-unroll-loops',
           '-fno-strict-aliasing', '-w', '-S', '-emit-llvm']
    if noinline:
        cmd.append('-fno-inline')
    if not exceptions:
        cmd.append('-fno-exceptions')
    cmd += DEFINES + INCLUDES + list(extra) + [src, '-o', out_ll]
    sh(cmd, timeout=900)
    return out_ll


def llvm_link(lls, out_ll):
    sh(['llvm-link-14', '-S'] + list(lls) + ['-o', out_ll], timeout=600)
    return out_ll


def ir2c(ll, roots, out_c, models=(), stubs=(), noops=()):
    cmd = [sys.executable, os.path.join(VERIF, 'engine', 'ir2c.py'), ll, '-o', out_c]
    for r in roots:
        cmd += ['--root', r]
    for m in models:
        cmd += ['--models', m]
    for s in stubs:
        cmd += ['--stub', s]
    for s in noops:
        cmd += ['--noop', s]
    sh(cmd, timeout=900)
    return out_c


def mangled(ll, pattern):
    """Return the defined function names in an .ll file matching a regex (on the mangled name)."""
    rx = re.compile(pattern)
    out = []
    with open(ll) as f:
        for ln in f:
            if ln.startswith('define '):
                m = re.search(r'@("[^"]+"|[-\w$.]+)\(', ln)
                if m and rx.search(m.group(1).strip('"')):
                    out.append(m.group(1).strip('"'))
    return out


# --------------------------------------------------------------------------- cbmc
class CbmcResult:
    def __init__(self):
        self.status = None      # 'success' | 'failed' | 'error' | 'timeout' | 'oom'
        self.failed = []        # [(property name, description)]
        self.n_props = 0
        self.wall = 0.0
        self.rss_mb = 0
        self.out = ''
        self.cmd = ''
        self.vccs = None
        self.sat_vars = None
        self.sat_clauses = None
        self.solver_s = None

    def only_failed(self, pred):
        return self.status == 'failed' and self.failed and all(pred(n, d) for n, d in self.failed)

    def brief(self):
        return {'status': self.status, 'wall_s': round(self.wall, 2), 'rss_mb': self.rss_mb, 'props': self.n_props,
                'failed': [d for _, d in self.failed][:6], 'vccs': self.vccs, 'sat_vars': self.sat_vars,
                'sat_clauses': self.sat_clauses, 'solver_s': self.solver_s}


CBMC_BASE = ['--verbosity', '8', '--unwinding-assertions', '--drop-unused-functions', '--no-malloc-may-fail',
             '--signed-overflow-check', '--undefined-shift-check']


def cbmc(cfile, args=(), defines=(), timeout=600, mem_gb=12, cwd=None, base=None, trace=False, includes=()):
    """Run cbmc on one C file.  Never raises for verification outcomes; raises InfraError only
    when cbmc could not even parse/convert the program."""
    r = CbmcResult()
    cmd = ['cbmc', cfile] + list(CBMC_BASE if base is None else base) + list(args)
    for d in defines:
        cmd += ['-D', d]
    for i in includes:
        cmd += ['-I', i]
    if trace:
        cmd += ['--trace']
    r.cmd = ' '.join(cmd)
    tfile = cfile + '.%d.%d.time' % (os.getpid(), threading.get_ident())
    full = ['/usr/bin/time', '-f', '%M', '-o', tfile] + cmd

    def lim():
        resource.setrlimit(resource.RLIMIT_AS, (int(mem_gb * (1 << 30)), int(mem_gb * (1 << 30))))
        os.setsid()
    t0 = time.time()
    try:
        p = subprocess.Popen(full, cwd=cwd, stdout=subprocess.PIPE, stderr=subprocess.STDOUT, universal_newlines=True,
                             errors='replace', preexec_fn=lim)
        try:
            out, _ = p.communicate(timeout=timeout)
        except subprocess.TimeoutExpired:
            try:
                os.killpg(p.pid, 9)
            except Exception:
                p.kill()
            out, _ = p.communicate()
            r.status = 'timeout'
    finally:
        r.wall = time.time() - t0
    r.out = out
    try:
        r.rss_mb = int(open(tfile).read().split()[-1]) // 1024
        os.unlink(tfile)
    except Exception:
        pass
    if r.status == 'timeout':
        return r
    m = re.search(r'Generated (\d+) VCC\(s\), (\d+) remaining', out)
    if m:
        r.vccs = (int(m.group(1)), int(m.group(2)))
    m = re.search(r'(\d+) variables, (\d+) clauses', out)
    if m:
        r.sat_vars, r.sat_clauses = int(m.group(1)), int(m.group(2))
    m = re.findall(r'Runtime Solver: ([0-9.e+-]+)s', out)
    if m:
        r.solver_s = round(sum(float(x) for x in m), 3)
    for m in re.finditer(r'^\[([^\]]+)\] (.*?): (SUCCESS|FAILURE)$', out, re.M):
        r.n_props += 1
        if m.group(3) == 'FAILURE':
            r.failed.append((m.group(1), re.sub(r'^(file \S+ )?line \d+ (function \S+ )?', '', m.group(2))))
    if 'VERIFICATION SUCCESSFUL' in out:
        r.status = 'success'
    elif 'VERIFICATION FAILED' in out:
        r.status = 'failed'
    elif 'std::bad_alloc' in out or 'Out of memory' in out or 'out of memory' in out or p.returncode in (-9, 137, -6, 134):
        r.status = 'oom'
    else:
        r.status = 'error'
    return r


def trace_values(out, prefix='cex_'):
    """Last assignment to every variable whose name starts with prefix, from a plain cbmc trace."""
    vals = {}
    rx = re.compile(r'^\s+(' + re.escape(prefix) + r'[\w.]*(?:\[\d+l?\])*(?:\.[\w.]+)?)=(.*?)(?: \([01 ?]+\))?$')
    for ln in out.split('\n'):
        m = rx.match(ln)
        if m:
            vals[m.group(1).replace('l]', ']')] = m.group(2).strip()
    return vals


def trace_int(v):
    v = v.strip()
    if v.endswith(('ul', 'll', 'lu')):
        v = v[:-2]
    elif v.endswith(('u', 'l')):
        v = v[:-1]
    if v in ('TRUE', 'true'):
        return 1
    if v in ('FALSE', 'false'):
        return 0
    try:
        return int(v)
    except ValueError:
        if v.startswith("'"):
            import ast
            try:
                c = ast.literal_eval(v)
                return ord(c) if len(c) == 1 else 0
            except Exception:
                m = re.match(r"'\\(\d+)'", v)       # octal escapes such as '\377'
                if m:
                    return int(m.group(1), 8)
                return ord(v[1]) if len(v) > 2 else 0
        return int(v, 0)


def trace_array(vals, name, n):
    return [trace_int(vals.get('%s[%d]' % (name, i), '0')) for i in range(n)]


def pmap(fn, items, jobs=None):
    jobs = jobs or NCPU
    with ThreadPoolExecutor(max_workers=jobs) as ex:
        return list(ex.map(fn, items))


# --------------------------------------------------------------------------- known findings
def known_findings(prop):
    p = os.path.join(VERIF, 'known_findings.json')
    if not os.path.exists(p):
        return []
    kf = json.load(open(p))
    return [f for f in kf.get('findings', []) if f.get('property') == prop]


# --------------------------------------------------------------------------- evidence
class Check:
    """Bookkeeping for one run of one property's check."""

    def __init__(self, prop, tier, seed, level='model_checking'):
        self.prop, self.tier, self.seed, self.level = prop, tier, seed, level
        self.t0 = time.time()
        self.queries = []          # dicts: name, bound, result...
        self.samples = []
        self.assumptions = []
        self.functions = []
        self.bounds = {}
        self.outside = []
        self.violations = []       # (what, replay path)
        self.known_seen = []
        self.infra = []
        self.extra = {}
        self.nontrivial = set()
        self.replays_native = 0
        self.tv_cases = 0
        self._lock = threading.Lock()

    def query(self, name, res, bound=None, witness=None, note=None, nontrivial=None):
        """Record one solver query.  `witness` is the CbmcResult of the reachability twin."""
        q = {'name': name}
        if bound is not None:
            q['bound'] = bound
        if isinstance(res, CbmcResult):
            q.update(res.brief())
        else:
            q.update(res)
        if witness is not None:
            q['witness_reached'] = (witness.status == 'failed')
        if note:
            q['note'] = note
        with self._lock:
            self.queries.append(q)
            nt = nontrivial if nontrivial is not None else (witness is None or witness.status == 'failed')
            if nt and q.get('status') in ('success', 'failed'):
                self.nontrivial.add(name)
        return q

    def violation(self, what, replay_path):
        with self._lock:
            self.violations.append((what, replay_path))
        log('VIOLATION property=%s replay=%s' % (self.prop, replay_path))
        log('  ' + what)

    def known(self, what):
        with self._lock:
            self.known_seen.append(what)
        log('KNOWN-FINDING: property=%s %s' % (self.prop, what))

    def infra_problem(self, what):
        with self._lock:
            self.infra.append(what)
        log('INFRA: ' + what)

    def replay_path(self, tag):
        d = os.path.join(VERIF, 'out', 'replay', self.prop)
        os.makedirs(d, exist_ok=True)
        return os.path.join(d, re.sub(r'[^A-Za-z0-9_.-]', '_', tag) + '.json')

    def write_replay(self, tag, obj):
        p = self.replay_path(tag)
        obj = dict(obj)
        obj['property'] = self.prop
        json.dump(obj, open(p, 'w'), indent=1, sort_keys=True)
        return p

    def finish(self):
        wall = time.time() - self.t0
        solver_wall = sum(q.get('wall_s', 0) or 0 for q in self.queries)
        cov = {
            'evaluations': max(1, len(self.queries)),
            'distinct_nontrivial': len(self.nontrivial),
            'rule': 'one evaluation = one solver query (cbmc run over the code regenerated from /repo on this run); '
                    'a query counts as distinct and non-trivial when it has its own harness/bound/document and its '
                    'reachability twin (-DWITNESS: assert(0) at the end of the harness) came back violated, i.e. the '
                    'assumptions are satisfiable and the assertions are reached',
            'samples': (self.samples + [q for q in self.queries[:8]])[:24],
            'functions_encoded': self.functions,
            'bounds': self.bounds,
            'outside_the_claim': self.outside,
            'queries': self.queries if len(self.queries) <= 400 else self.queries[:400],
            'queries_total': len(self.queries),
            'queries_success': sum(1 for q in self.queries if q.get('status') == 'success'),
            'queries_failed': sum(1 for q in self.queries if q.get('status') == 'failed'),
            'queries_inconclusive': sum(1 for q in self.queries if q.get('status') not in ('success', 'failed')),
            'solver_wall_s_sum': round(solver_wall, 1),
            'peak_rss_mb': max([q.get('rss_mb', 0) or 0 for q in self.queries] + [0]),
            'counterexamples_replayed_natively': self.replays_native,
            'translation_validation_cases': self.tv_cases,
            'known_findings_seen': self.known_seen,
            'infrastructure_problems': self.infra,
            'exhaustive': False,
        }
        cov.update(self.extra)
        ev = {'property_id': self.prop, 'tier': self.tier, 'seed': self.seed, 'level': self.level,
              'coverage': cov, 'assumptions': self.assumptions, 'wall_s': round(wall, 1),
              'violations': len(self.violations)}
        os.makedirs(os.path.join(VERIF, 'evidence'), exist_ok=True)
        p = os.path.join(VERIF, 'evidence', self.prop + '.json')
        json.dump(ev, open(p + '.tmp', 'w'), indent=1, sort_keys=True, default=str)
        os.replace(p + '.tmp', p)
        if self.violations:
            return 1
        if self.infra:
            return 2
        return 0
