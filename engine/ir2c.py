#!/usr/bin/env python3
"""
ir2c.py -- translate a (linked) LLVM-14 textual IR module into one C translation
unit that CBMC's C front end accepts.  PROTOTYPE written during the design phase
to measure feasibility; the production version lives in /verif/engine/ir2c.py.

usage: ir2c.py module.ll --root f1 --root f2 [--models models.txt] > out.c

Semantics implemented:
  * typed pointers, named/literal/packed structs, arrays, function pointers
  * all integer ops with wrap-around (nsw/nuw ignored), icmp, select, phi
  * load/store/GEP/bitcast/ptrtoint/inttoptr/alloca
  * call, indirect call, invoke/landingpad/resume via a pending-exception flag
  * switch, br, ret, unreachable
  * intrinsics: memcpy/memmove/memset/lifetime/umax/umin/smax/smin/ctlz/cttz/
    ctpop/bswap/expect/assume/trap/eh.typeid.for/objectsize/*.with.overflow
  * atomics executed sequentially (single thread)
External functions with no body: mapped to `M_<name>` if listed in the models
file, otherwise a stub that asserts "unmodelled external reached".
"""
import re, sys, argparse, collections

# --------------------------------------------------------------------------- lexer
TOK = re.compile(r'''
    (?P<ws>\s+)
  | (?P<comment>;[^\n]*)
  | (?P<cstr>c"(?:[^"\\]|\\[0-9a-fA-F]{2}|\\\\)*")
  | (?P<str>"(?:[^"\\]|\\.)*")
  | (?P<lid>%(?:"(?:[^"\\]|\\.)*"|[-a-zA-Z$._0-9]+))
  | (?P<gid>@(?:"(?:[^"\\]|\\.)*"|[-a-zA-Z$._0-9]+))
  | (?P<md>!(?:[-a-zA-Z$._0-9]+|\{[^}]*\})?)
  | (?P<attr>\#[0-9]+)
  | (?P<comdat>\$(?:"(?:[^"\\]|\\.)*"|[-a-zA-Z$._0-9]+))
  | (?P<hex>0x[KLMHR]?[0-9a-fA-F]+)
  | (?P<float>-?[0-9]+\.[0-9]*(?:e[-+]?[0-9]+)?)
  | (?P<int>-?[0-9]+)
  | (?P<dots>\.\.\.)
  | (?P<word>[a-zA-Z_][-a-zA-Z_.0-9]*)
  | (?P<punct>[(){}\[\]<>=,*:|])
''', re.X)

def lex(s):
    out = []; pos = 0; n = len(s)
    while pos < n:
        m = TOK.match(s, pos)
        if not m: raise SyntaxError("lex error at %r" % s[pos:pos+40])
        pos = m.end(); k = m.lastgroup
        if k in ('ws', 'comment'): continue
        out.append((k, m.group()))
    return out

class Toks:
    def __init__(self, toks): self.t = toks; self.i = 0
    def peek(self, o=0): return self.t[self.i+o] if self.i+o < len(self.t) else ('eof', '')
    def next(self): x = self.peek(); self.i += 1; return x
    def accept(self, v):
        if self.peek()[1] == v: self.i += 1; return True
        return False
    def expect(self, v):
        x = self.next()
        if x[1] != v: raise SyntaxError("expected %r got %r near %r" % (v, x, self.t[max(0,self.i-6):self.i+4]))
    def eof(self): return self.i >= len(self.t)

# --------------------------------------------------------------------------- types
class Ty:
    __slots__ = ('k', 'bits', 'elem', 'fields', 'packed', 'name', 'n', 'ret', 'params', 'vararg', 'cname')
    def __init__(self, k, **kw):
        self.k = k; self.bits = None; self.elem = None; self.fields = None; self.packed = False
        self.name = None; self.n = None; self.ret = None; self.params = None; self.vararg = False; self.cname = None
        for a, b in kw.items(): setattr(self, a, b)
    def key(self):
        k = self.k
        if k == 'int': return 'i%d' % self.bits
        if k in ('void', 'float', 'double', 'fp80', 'label', 'metadata', 'token'): return k
        if k == 'ptr': return self.elem.key() + '*'
        if k == 'named': return '%' + self.name
        if k == 'struct': return ('<{' if self.packed else '{') + ','.join(f.key() for f in self.fields) + '}'
        if k == 'array': return '[%d x %s]' % (self.n, self.elem.key())
        if k == 'vector': return '<%d x %s>' % (self.n, self.elem.key())
        if k == 'func': return self.ret.key() + '(' + ','.join(p.key() for p in self.params) + (',...' if self.vararg else '') + ')'
        if k == 'opaque': return 'opaque'
        raise ValueError(k)

VOID = Ty('void'); I1 = Ty('int', bits=1); I8 = Ty('int', bits=8); I32 = Ty('int', bits=32); I64 = Ty('int', bits=64)
I8P = Ty('ptr', elem=I8)

class Module:
    def __init__(self):
        self.named = {}      # name -> Ty (struct/opaque)
        self.globals = {}    # name -> Global
        self.funcs = {}      # name -> Func
        self.aliases = {}    # name -> target name
        self.attrs = {}      # '#n' -> text

class Global:
    def __init__(self, name, ty, init, const, external): self.name, self.ty, self.init, self.const, self.external = name, ty, init, const, external
class Func:
    def __init__(self, name, ret, params, vararg, body): self.name, self.ret, self.params, self.vararg, self.body = name, ret, params, vararg, body
        # params: list of (Ty, name or None, attrs list)
    def fty(self): return Ty('func', ret=self.ret, params=[p[0] for p in self.params], vararg=self.vararg)

PARAM_ATTR_WORDS = {'noundef','nonnull','nocapture','readonly','readnone','writeonly','noalias','signext','zeroext','returned',
                    'inreg','nest','immarg','swiftself','swifterror','nofree','nosync','writable','dead_on_unwind','noext','allocalign','allocptr'}
PARAM_ATTR_FUNCS = {'align','dereferenceable','dereferenceable_or_null','byval','sret','inalloca','preallocated','byref','elementtype','allocsize'}

class Parser:
    def __init__(self, mod): self.mod = mod

    # ---- types
    def ty(self, T):
        k, v = T.next()
        if k == 'word':
            if v == 'void': t = VOID
            elif re.fullmatch(r'i[0-9]+', v): t = Ty('int', bits=int(v[1:]))
            elif v == 'float': t = Ty('float')
            elif v == 'double': t = Ty('double')
            elif v == 'x86_fp80': t = Ty('fp80')
            elif v == 'label': t = Ty('label')
            elif v == 'metadata': t = Ty('metadata')
            elif v == 'token': t = Ty('token')
            elif v == 'opaque': t = Ty('opaque')
            elif v == 'ptr': t = I8P
            else: raise SyntaxError("type? %r" % v)
        elif k == 'lid':
            t = Ty('named', name=unq(v[1:]))
        elif v == '{':
            fs = []
            if not T.accept('}'):
                while True:
                    fs.append(self.ty(T))
                    if T.accept('}'): break
                    T.expect(',')
            t = Ty('struct', fields=fs)
        elif v == '<':
            if T.peek()[1] == '{':
                T.next(); fs = []
                if not T.accept('}'):
                    while True:
                        fs.append(self.ty(T))
                        if T.accept('}'): break
                        T.expect(',')
                T.expect('>')
                t = Ty('struct', fields=fs, packed=True)
            else:
                n = int(T.next()[1]); assert T.next()[1] == 'x'; e = self.ty(T); T.expect('>')
                t = Ty('vector', n=n, elem=e)
        elif v == '[':
            n = int(T.next()[1]); assert T.next()[1] == 'x'; e = self.ty(T); T.expect(']')
            t = Ty('array', n=n, elem=e)
        else:
            raise SyntaxError("type? %r %r" % (k, v))
        # suffixes
        while True:
            if T.peek()[1] == '*': T.next(); t = Ty('ptr', elem=t)
            elif T.peek()[1] == '(' :
                # function type
                T.next(); ps = []; va = False
                if not T.accept(')'):
                    while True:
                        if T.peek()[0] == 'dots': T.next(); va = True
                        else: ps.append(self.ty(T))
                        if T.accept(')'): break
                        T.expect(',')
                t = Ty('func', ret=t, params=ps, vararg=va)
            elif T.peek()[1] == 'addrspace':
                T.next(); T.expect('('); T.next(); T.expect(')')
            else: break
        return t

    def skip_param_attrs(self, T):
        attrs = []
        while True:
            k, v = T.peek()
            if k == 'word' and v in PARAM_ATTR_WORDS: T.next(); attrs.append(v)
            elif k == 'word' and v in PARAM_ATTR_FUNCS:
                T.next()
                if T.peek()[1] == '(':
                    T.next(); depth = 1; inner = []
                    while depth:
                        x = T.next()
                        if x[1] == '(': depth += 1
                        elif x[1] == ')': depth -= 1
                        if depth: inner.append(x)
                    attrs.append((v, inner))
                else:
                    if v == 'align': attrs.append(('align', [T.next()]))
                    else: attrs.append(v)
            else: break
        return attrs

    # ---- values (typed operand: type already known)
    def val(self, T, ty):
        k, v = T.next()
        if k == 'lid': return ('loc', unq(v[1:]), ty)
        if k == 'gid': return ('glob', unq(v[1:]), ty)
        if k == 'int': return ('int', int(v), ty)
        if k == 'hex': return ('fhex', v, ty)
        if k == 'float': return ('flt', v, ty)
        if k == 'cstr': return ('cstr', cbytes(v), ty)
        if k == 'word':
            if v == 'true': return ('int', 1, ty)
            if v == 'false': return ('int', 0, ty)
            if v == 'null': return ('null', None, ty)
            if v in ('undef', 'poison'): return ('undef', None, ty)
            if v == 'zeroinitializer': return ('zero', None, ty)
            if v == 'getelementptr':
                T.accept('inbounds'); T.expect('(')
                bt = self.ty(T); T.expect(','); pt = self.ty(T); p = self.val(T, pt); idx = []
                while T.accept(','):
                    T.accept('inrange'); it = self.ty(T); idx.append(self.val(T, it))
                T.expect(')')
                return ('cgep', (bt, p, idx), ty)
            if v in ('bitcast', 'ptrtoint', 'inttoptr', 'trunc', 'zext', 'sext', 'addrspacecast'):
                T.expect('('); st = self.ty(T); x = self.val(T, st); T.expect('to'); dt = self.ty(T); T.expect(')')
                return ('ccast', (v, x, dt), dt)
            if v in ('add', 'sub', 'mul', 'and', 'or', 'xor', 'shl', 'lshr', 'ashr', 'udiv', 'sdiv', 'urem', 'srem'):
                while T.peek()[1] in ('nsw', 'nuw', 'exact'): T.next()
                T.expect('('); t1 = self.ty(T); a = self.val(T, t1); T.expect(','); t2 = self.ty(T); b = self.val(T, t2); T.expect(')')
                return ('cbin', (v, a, b), t1)
            if v == 'icmp':
                pred = T.next()[1]; T.expect('('); t1 = self.ty(T); a = self.val(T, t1); T.expect(','); t2 = self.ty(T); b = self.val(T, t2); T.expect(')')
                return ('cicmp', (pred, a, b), I1)
            if v == 'select':
                T.expect('('); t0 = self.ty(T); c = self.val(T, t0); T.expect(','); t1 = self.ty(T); a = self.val(T, t1); T.expect(','); t2 = self.ty(T); b = self.val(T, t2); T.expect(')')
                return ('csel', (c, a, b), t1)
            raise SyntaxError("const expr? %r" % v)
        if v == '{' or (v == '<' and T.peek()[1] == '{'):
            packed = (v == '<')
            if packed: T.next()
            els = []
            if not T.accept('}'):
                while True:
                    et = self.ty(T); els.append(self.val(T, et))
                    if T.accept('}'): break
                    T.expect(',')
            if packed: T.expect('>')
            return ('cstruct', els, ty)
        if v == '[':
            els = []
            if not T.accept(']'):
                while True:
                    et = self.ty(T); els.append(self.val(T, et))
                    if T.accept(']'): break
                    T.expect(',')
            return ('carray', els, ty)
        raise SyntaxError("value? %r %r" % (k, v))

    def tval(self, T):
        t = self.ty(T); self.skip_param_attrs(T); return self.val(T, t)

def unq(s):
    if s.startswith('"'): return s[1:-1]
    return s

def cbytes(v):
    s = v[2:-1]; out = bytearray(); i = 0
    while i < len(s):
        if s[i] == '\\':
            if s[i+1] == '\\': out.append(92); i += 2
            else: out.append(int(s[i+1:i+3], 16)); i += 3
        else: out.append(ord(s[i])); i += 1
    return bytes(out)

# --------------------------------------------------------------------------- module parser
LINKAGE = {'private','internal','available_externally','linkonce','weak','common','appending','extern_weak','linkonce_odr','weak_odr','external',
           'dso_local','dso_preemptable','hidden','protected','default','unnamed_addr','local_unnamed_addr','thread_local','externally_initialized',
           'dllimport','dllexport'}
FN_ATTR_WORDS = {'noinline','nounwind','optnone','uwtable','mustprogress','norecurse','readnone','readonly','willreturn','nofree','nosync','noreturn','cold',
                 'inlinehint','alwaysinline','ssp','sspstrong','argmemonly','inaccessiblememonly','nobuiltin','builtin','minsize','optsize','writeonly','speculatable',
                 'inaccessiblemem_or_argmemonly','nocallback','noduplicate','convergent','hot','naked','returns_twice','safestack','sanitize_address','nomerge'}

def parse_module(text):
    mod = Module(); P = Parser(mod)
    lines = text.split('\n'); i = 0
    while i < len(lines):
        ln = lines[i]; i += 1
        s = ln.strip()
        if not s or s.startswith(';') or s.startswith('source_filename') or s.startswith('target ') or s.startswith('!') or s.startswith('$') or s.startswith('module asm'):
            continue
        if s.startswith('attributes '):
            m = re.match(r'attributes (#\d+) = \{(.*)\}', s); mod.attrs[m.group(1)] = m.group(2); continue
        if s.startswith('%') and ' = type ' in s:
            T = Toks(lex(s)); name = unq(T.next()[1][1:]); T.expect('='); T.expect('type')
            mod.named[name] = P.ty(T); continue
        if s.startswith('@'):
            T = Toks(lex(s)); name = unq(T.next()[1][1:]); T.expect('=')
            ext = False
            while T.peek()[0] == 'word' and (T.peek()[1] in LINKAGE):
                if T.peek()[1] in ('external', 'extern_weak', 'available_externally'): ext = True
                T.next()
                if T.peek()[1] == '(' : # thread_local(initialexec)
                    T.next(); T.next(); T.expect(')')
            if T.peek()[1] == 'alias':
                T.next(); P.ty(T); T.expect(','); tv = P.tval(T)
                tgt = tv
                while tgt[0] == 'ccast': tgt = tgt[1][1]
                mod.aliases[name] = tgt[1]; continue
            if T.peek()[1] == 'ifunc': continue
            const = T.next()[1] == 'constant'
            ty = P.ty(T); init = None
            if not T.eof() and T.peek()[1] != ',':
                init = P.val(T, ty)
            mod.globals[name] = Global(name, ty, init, const, init is None); continue
        if s.startswith('declare '):
            T = Toks(lex(s)); T.next()
            f = parse_fn_header(P, T, False); mod.funcs.setdefault(f.name, f); continue
        if s.startswith('define '):
            T = Toks(lex(s)); T.next()
            f = parse_fn_header(P, T, True)
            body = []
            while lines[i].strip() != '}':
                body.append(lines[i]); i += 1
            i += 1
            f.body = body; mod.funcs[f.name] = f; continue
        raise SyntaxError("module line? %r" % s[:120])
    return mod

def parse_fn_header(P, T, is_def):
    while True:
        k, v = T.peek()
        if k == 'word' and (v in LINKAGE or v in PARAM_ATTR_WORDS or v in ('fastcc','ccc','coldcc','cc','tailcc','swiftcc')):
            T.next(); continue
        if k == 'word' and v in PARAM_ATTR_FUNCS:
            P.skip_param_attrs(T); continue
        break
    ret = P.ty_noFn(T) if hasattr(P, 'ty_noFn') else fn_ret_ty(P, T)
    name = unq(T.next()[1][1:])
    T.expect('('); params = []; va = False
    if not T.accept(')'):
        while True:
            if T.peek()[0] == 'dots': T.next(); va = True
            else:
                t = P.ty(T); at = P.skip_param_attrs(T); pn = None
                if T.peek()[0] == 'lid': pn = unq(T.next()[1][1:])
                params.append((t, pn, at))
            if T.accept(')'): break
            T.expect(',')
    f = Func(name, ret, params, va, None)
    f.attrtext = ' '.join(x[1] for x in T.t[T.i:])
    return f

def fn_ret_ty(P, T):
    # return type: a type NOT followed by a function-type suffix consuming '(' of the def itself.
    # The def looks like:  <retty> @name(...)  so retty ends right before the gid.
    # find index of the gid at depth 0
    j = T.i; depth = 0
    while True:
        k, v = T.t[j]
        if v in '({[<' and k == 'punct': depth += 1
        elif v in ')}]>' and k == 'punct': depth -= 1
        elif k == 'gid' and depth == 0: break
        j += 1
    sub = Toks(T.t[T.i:j]); t = P.ty(sub)
    # trailing attrs like 'noundef' were already skipped before; but ret attrs may be interleaved: skip leftovers
    T.i = j
    return t

# --------------------------------------------------------------------------- C emission helpers
def cid(s):
    return re.sub(r'[^A-Za-z0-9_]', lambda m: '_%02x' % ord(m.group()), s)

class CGen:
    def __init__(self, mod, models, opts):
        self.mod = mod; self.models = models; self.opts = opts
        self.tynames = {}     # key -> cname
        self.tydecl_order = []
        self.tydefs = {}      # cname -> (kind, Ty)
        self.out_types = []
        self.ti_ids = {}      # typeinfo global name -> small int

    def resolve(self, t):
        while t.k == 'named':
            t2 = self.mod.named.get(t.name)
            if t2 is None: return Ty('opaque', name=t.name)
            if t2.k == 'opaque': return Ty('opaque', name=t.name)
            if t2.k == 'struct' and t2.name is None:
                t2.name = t.name
            return t2
        return t

    # C type name for a Ty
    def ct(self, t):
        k = t.k
        if k == 'void': return 'void'
        if k == 'int':
            b = t.bits
            if b == 1: return 'u8'
            if b <= 8: return 'u8'
            if b <= 16: return 'u16'
            if b <= 32: return 'u32'
            if b <= 64: return 'u64'
            if b <= 128: return 'u128'
            raise ValueError("int width %d" % b)
        if k == 'float': return 'float'
        if k == 'double': return 'double'
        if k == 'fp80': return 'long double'
        if k == 'ptr':
            return 'u8*'
        if k == 'named':
            r = self.resolve(t)
            if r.k == 'opaque': return self.opaque_name(t.name)
            return self.struct_name(r, t.name)
        if k == 'opaque': return self.opaque_name(t.name or 'anon')
        if k == 'struct': return self.struct_name(t, t.name)
        if k == 'array':
            key = t.key()
            if key not in self.tynames:
                nm = 'struct A%d' % len(self.tynames); self.tynames[key] = nm
                self.tydefs[nm] = ('array', t)
                if t.elem.k != 'ptr': self.ct(t.elem)
                self.tydecl_order.append(nm)
            return self.tynames[key]
        if k == 'func':
            key = t.key()
            if key not in self.tynames:
                nm = 'F%d' % len(self.tynames); self.tynames[key] = nm
                self.tydefs[nm] = ('func', t); self.tydecl_order.append(nm)
                self.ct(t.ret)
                for p in t.params: self.ct(p)
            return self.tynames[key]
        if k == 'vector':
            raise ValueError("vector types unsupported: compile with -fno-vectorize -fno-slp-vectorize")
        raise ValueError("ct %s" % k)

    def pt(self, t):
        # C type to use when dereferencing a pointer to t
        if t.k in ('void', 'label', 'metadata', 'token'): return 'u8'
        if t.k == 'func': return self.ct(t)
        return self.ct(t)

    def opaque_name(self, name):
        key = 'opaque:' + name
        if key not in self.tynames:
            nm = 'struct O_' + cid(name); self.tynames[key] = nm
            self.tydefs[nm] = ('opaque', None); self.tydecl_order.append(nm)
        return self.tynames[key]

    def struct_name(self, t, name):
        key = ('%' + name) if name else t.key()
        if key not in self.tynames:
            nm = 'struct S_' + cid(name) if name else 'struct L%d' % len(self.tynames)
            self.tynames[key] = nm
            self.tydefs[nm] = ('struct', t)
            for f in t.fields:
                if f.k != 'ptr': self.ct(f)      # by-value deps first
            self.tydecl_order.append(nm)
        return self.tynames[key]

    def ptr_dep(self, t):
        # make sure pointee types get declared (any order)
        try: self.ct(t)
        except RecursionError: raise

    def emit_types(self):
        out = []
        for nm in self.tydecl_order:
            kind, t = self.tydefs[nm]
            if kind in ('struct', 'opaque', 'array'): out.append('%s;' % nm)
        # function typedefs (parameter types may be incomplete here, which C allows in declarators)
        i = 0
        while i < len(self.tydecl_order):
            nm = self.tydecl_order[i]; i += 1
            kind, t = self.tydefs[nm]
            if kind != 'func': continue
            ps = ', '.join(self.ct(p) for p in t.params)
            if t.vararg: ps = (ps + ', ...') if ps else ''
            elif not ps: ps = 'void'
            out.append('typedef %s %s(%s);' % (self.ct(t.ret), nm, ps))
        done = set()
        def emit(nm):
            if nm in done: return
            done.add(nm)
            kind, t = self.tydefs[nm]
            if kind == 'opaque':
                out.append('%s { u8 _opaque; };' % nm)
            elif kind == 'struct':
                for f in t.fields: dep(f)
                fs = ' '.join('%s f%d;' % (self.ct(f), i) for i, f in enumerate(t.fields))
                out.append('%s { %s }%s;' % (nm, fs if fs else 'u8 _empty[0];', ' __attribute__((packed))' if t.packed else ''))
            elif kind == 'array':
                dep(t.elem)
                out.append('%s { %s a[%d]; };' % (nm, self.ct(t.elem), t.n))
        def dep(f):
            if f.k == 'ptr': return
            c = self.ct(f)
            if c in self.tydefs: emit(c)
        i = 0
        while i < len(self.tydecl_order):
            emit(self.tydecl_order[i]); i += 1
        return out

# --------------------------------------------------------------------------- function translation
BINOPS = {'add': '+', 'sub': '-', 'mul': '*', 'and': '&', 'or': '|', 'xor': '^'}
ICMP_U = {'eq': '==', 'ne': '!=', 'ugt': '>', 'uge': '>=', 'ult': '<', 'ule': '<='}
ICMP_S = {'sgt': '>', 'sge': '>=', 'slt': '<', 'sle': '<='}
FCMP = {'oeq': '==', 'ogt': '>', 'oge': '>=', 'olt': '<', 'ole': '<=', 'one': '!=', 'ueq': '==', 'une': '!=', 'ugt': '>', 'uge': '>=', 'ult': '<', 'ule': '<='}

def sty(bits):
    return {8: 'int8_t', 16: 'int16_t', 32: 'int32_t', 64: 'int64_t', 128: '__int128'}[bits]
def cbits(bits):
    for b in (8, 16, 32, 64, 128):
        if bits <= b: return b
    raise ValueError(bits)

class FnTrans:
    def __init__(self, G, f):
        self.G = G; self.f = f; self.P = Parser(G.mod)
        self.vars = collections.OrderedDict()  # name -> Ty
        self.blocks = []  # (label, [instrs])
        self.code = []
        self.tmpn = 0

    def v(self, name): return 'v_' + cid(name)

    def mask(self, expr, t):
        if t.k == 'int' and t.bits not in (8, 16, 32, 64, 128):
            if t.bits == 1: return '((%s)&1)' % expr
            return '((%s)&(((%s)1<<%d)-1))' % (expr, self.G.ct(t), t.bits)
        return expr

    def sext_expr(self, expr, t):
        # signed interpretation of iN value as C signed of container width
        b = t.bits; cb = cbits(b)
        if b == cb: return '((%s)(%s))' % (sty(cb), expr)
        return '((%s)((%s)((%s)(%s) << %d)) >> %d)' % (sty(cb), sty(cb), self.G.ct(t), expr, cb - b, cb - b)

    # operand -> C expression
    def op(self, val):
        kind, x, ty = val
        G = self.G
        if kind == 'loc': return self.v(x)
        if kind == 'glob':
            return G.globref(x, ty)
        if kind == 'int':
            if ty.k == 'int':
                b = ty.bits; m = (1 << b) - 1; n = x & m
                if b > 64:
                    hi = n >> 64; lo = n & ((1 << 64) - 1)
                    return '((((u128)%dULL)<<64)|(u128)%dULL)' % (hi, lo)
                return '((%s)%dULL)' % (G.ct(ty), n)
            return str(x)
        if kind == 'null': return '((%s)0)' % G.ct(ty)
        if kind == 'undef' or kind == 'zero':
            if ty.k in ('int', 'ptr', 'float', 'double', 'fp80'): return '((%s)0)' % G.ct(ty)
            return '(%s){0}' % G.ct(ty) if False else G.zero_value(ty)
        if kind == 'fhex' or kind == 'flt':
            return G.float_lit(x, ty)
        if kind == 'cgep':
            bt, p, idx = x
            return self.gep_expr(bt, self.op(p), [(i[2], self.op(i), i) for i in idx], ty)
        if kind == 'ccast':
            opn, src, dt = x
            return self.cast_expr(opn, src[2], self.op(src), dt)
        if kind == 'cbin':
            o, a, b = x
            return self.bin_expr(o, a[2], self.op(a), self.op(b))
        if kind == 'cicmp':
            pred, a, b = x
            return self.icmp_expr(pred, a[2], self.op(a), self.op(b))
        if kind == 'csel':
            c, a, b = x
            return '(%s ? %s : %s)' % (self.op(c), self.op(a), self.op(b))
        if kind in ('cstruct', 'carray', 'cstr'):
            return G.const_compound_expr(val)
        raise ValueError("op %s" % kind)

    def gep_expr(self, bt, pexpr, idx, resty):
        G = self.G
        t = bt
        it0, e0, raw0 = idx[0]
        base = '((%s*)%s)' % (G.pt(bt), pexpr)
        if not (raw0[0] == 'int' and raw0[1] == 0):
            base = '(%s + %s)' % (base, self.idx_signed(it0, e0))
        if len(idx) == 1:
            return '((u8*)%s)' % base
        acc = '(*%s)' % base
        cur = G.resolve(t)
        for it, e, raw in idx[1:]:
            cur = G.resolve(cur)
            if cur.k == 'struct':
                assert raw[0] == 'int', "struct index must be constant"
                acc = '%s.f%d' % (acc, raw[1]); cur = cur.fields[raw[1]]
            elif cur.k == 'array':
                acc = '%s.a[%s]' % (acc, self.idx_signed(it, e)); cur = cur.elem
            else:
                raise ValueError("gep into %s" % cur.k)
        return '((u8*)&%s)' % acc

    def idx_signed(self, it, e):
        if it.k == 'int' and it.bits < 64: return '((int64_t)%s)' % self.sext_expr(e, it)
        return '((int64_t)%s)' % e

    def cast_expr(self, opn, st, e, dt):
        G = self.G
        if opn in ('bitcast', 'addrspacecast'):
            if st.k == 'ptr' and dt.k == 'ptr': return e
            if st.k == 'int' and dt.k == 'int': return e
            # float<->int bit pattern
            return G.bitpattern_cast(e, st, dt)
        if opn == 'ptrtoint': return self.mask('((%s)(u64)%s)' % (G.ct(dt), e), dt)
        if opn == 'inttoptr': return '((%s)(u64)%s)' % (G.ct(dt), e)
        if opn == 'trunc': return self.mask('((%s)%s)' % (G.ct(dt), e), dt)
        if opn == 'zext': return '((%s)%s)' % (G.ct(dt), e)
        if opn == 'sext': return self.mask('((%s)%s)' % (G.ct(dt), self.sext_expr(e, st)), dt)
        if opn in ('fptrunc', 'fpext'): return '((%s)%s)' % (G.ct(dt), e)
        if opn == 'uitofp': return '((%s)%s)' % (G.ct(dt), e)
        if opn == 'sitofp': return '((%s)%s)' % (G.ct(dt), self.sext_expr(e, st))
        if opn == 'fptoui': return self.mask('((%s)%s)' % (G.ct(dt), e), dt)
        if opn == 'fptosi': return self.mask('((%s)(%s)%s)' % (G.ct(dt), sty(cbits(dt.bits)), e), dt)
        raise ValueError(opn)

    def bin_expr(self, o, t, a, b):
        G = self.G; ct = G.ct(t)
        if t.k in ('float', 'double', 'fp80'):
            fo = {'fadd': '+', 'fsub': '-', 'fmul': '*', 'fdiv': '/'}
            if o in fo: return '(%s %s %s)' % (a, fo[o], b)
            if o == 'frem': return 'fmod(%s,%s)' % (a, b)
        lit = lambda x: re.fullmatch(r'\(\(u\d+\)\d+ULL\)', x) is not None
        if t.k == 'int' and t.bits == 32 and not lit(a) and not lit(b):
            # symbolic x symbolic 32-bit arithmetic goes through macros that a harness may turn into
            # uninterpreted functions (-DIR_UF_ARITH): multiplier/divider equivalence is not a SAT-friendly problem
            if o == 'mul': return 'IR_MUL32(%s, %s)' % (a, b)
            if o == 'sdiv': return self.mask('((%s)IR_SDIV32(%s, %s))' % (ct, self.sext_expr(a, t), self.sext_expr(b, t)), t)
            if o == 'srem': return self.mask('((%s)IR_SREM32(%s, %s))' % (ct, self.sext_expr(a, t), self.sext_expr(b, t)), t)
        if o in BINOPS: return self.mask('((%s)(%s %s %s))' % (ct, a, BINOPS[o], b), t)
        if o == 'shl': return self.mask('((%s)(%s << %s))' % (ct, a, b), t)
        if o == 'lshr': return '((%s)(%s >> %s))' % (ct, a, b)
        if o == 'ashr': return self.mask('((%s)(%s >> %s))' % (ct, self.sext_expr(a, t), b), t)
        if o == 'udiv': return '((%s)(%s / %s))' % (ct, a, b)
        if o == 'urem': return '((%s)(%s %% %s))' % (ct, a, b)
        if o == 'sdiv': return self.mask('((%s)IR_SDIV(%s, %s))' % (ct, self.sext_expr(a, t), self.sext_expr(b, t)), t)
        if o == 'srem': return self.mask('((%s)IR_SREM(%s, %s))' % (ct, self.sext_expr(a, t), self.sext_expr(b, t)), t)
        raise ValueError(o)

    def icmp_expr(self, pred, t, a, b):
        if t.k == 'ptr':
            if pred in ('eq', 'ne'):
                if a == '((u8*)0)' or b == '((u8*)0)': return '((u8)(%s %s %s))' % (a, ICMP_U[pred], b)
                return '((u8)(%sIR_PTR_EQ(%s, %s)))' % ('' if pred == 'eq' else '!', a, b)
            a = '((u64)%s)' % a; b = '((u64)%s)' % b
            if pred in ICMP_U: return '((u8)(%s %s %s))' % (a, ICMP_U[pred], b)
            return '((u8)((int64_t)%s %s (int64_t)%s))' % (a, ICMP_S[pred], b)
        if pred in ICMP_U: return '((u8)(%s %s %s))' % (a, ICMP_U[pred], b)
        return '((u8)(%s %s %s))' % (self.sext_expr(a, t), ICMP_S[pred], self.sext_expr(b, t))

    # ------------------------------------------------------------------ parse body
    def parse_body(self):
        cur = None; blocks = []
        first = True
        for ln in self.f.body:
            s = ln.strip()
            if not s or s.startswith(';'): continue
            m = re.match(r'^("(?:[^"\\]|\\.)*"|[-a-zA-Z$._0-9]+):', s)
            if m and not s.startswith('%'):
                cur = [unq(m.group(1)), []]; blocks.append(cur); continue
            if cur is None:
                # implicit entry block label = number of params (unnamed count)
                cur = ['__entry', []]; blocks.append(cur)
            # multi-line instructions (invoke ... \n to label, switch [...], landingpad clauses)
            cur[1].append(s)
        # merge continuation lines
        for b in blocks:
            merged = []
            for s in b[1]:
                if merged and (s.startswith('to label') or s.startswith('catch ') or s.startswith('cleanup') or s.startswith('filter ')
                               or (self.in_switch(merged[-1]))):
                    merged[-1] += ' ' + s
                else: merged.append(s)
            b[1] = merged
        self.blocks = blocks

    @staticmethod
    def in_switch(s):
        return s.startswith('switch ') and s.count('[') > s.count(']')

    # ------------------------------------------------------------------ translate
    def translate(self):
        G = self.G; f = self.f
        self.parse_body()
        # entry label: unnamed entry block has implicit number
        nparams_unnamed = sum(1 for p in f.params if p[1] is None)
        # assign names to unnamed params: %0..%n-1
        pn = []; k = 0
        for (t, name, at) in f.params:
            if name is None: name = str(k)
            k += 1 if True else 0
            pn.append((t, name, at))
        # NB: LLVM numbers unnamed params and entry block sequentially: params take 0..n-1 (only unnamed ones consume numbers)
        pn = []; cnt = 0
        for (t, name, at) in f.params:
            if name is None: name = str(cnt); cnt += 1
            elif name.isdigit(): cnt = int(name) + 1
            pn.append((t, name, at))
        if self.blocks and self.blocks[0][0] == '__entry': self.blocks[0][0] = str(cnt)
        self.params = pn
        # first pass: parse instructions
        self.instrs = {}  # label -> list of parsed
        self.phis = {}    # label -> list of (dest, ty, [(val, predlabel)])
        for lab, ins in self.blocks:
            lst = []; ph = []
            for s in ins:
                I = self.parse_instr(s)
                if I[0] == 'phi': ph.append(I)
                else: lst.append(I)
            self.instrs[lab] = lst; self.phis[lab] = ph
        # emit
        out = []
        ret_c = G.ct(f.ret)
        ps = ', '.join('%s %s' % (G.ct(t), self.v(n)) for (t, n, a) in pn)
        if f.vararg: ps = ps + ', ...' if ps else '...'
        if not ps: ps = 'void'
        body = []
        for lab, _ in self.blocks:
            body.append('L_%s: ;' % cid(lab))
            # landingpad must be first
            for I in self.instrs[lab]:
                self.emit_instr(I, lab, body)
        decls = []
        for n, t in self.vars.items():
            if t.k == 'void': continue
            decls.append('  %s %s;' % (G.ct(t), self.v(n)))
        # phi temps
        for lab in self.phis:
            for I in self.phis[lab]:
                decls.append('  %s %s_t;' % (G.ct(I[2]), self.v(I[1])))
        head = '%s %s(%s)' % (ret_c, G.fname(f.name), ps)
        return head, ['{'] + decls + ['  ' + x for x in body] + ['}']

    def defvar(self, name, ty):
        self.vars[name] = ty

    def parse_instr(self, s):
        P = self.P
        # strip metadata suffixes ", !tbaa !5" and attribute refs
        T = Toks([t for t in lex(s)])
        dest = None
        if T.peek()[0] == 'lid' and T.peek(1)[1] == '=':
            dest = unq(T.next()[1][1:]); T.next()
        k, opn = T.next()
        def strip_md():
            pass
        if opn in ('tail', 'musttail', 'notail'): k, opn = T.next()
        if opn == 'phi':
            ty = P.ty(T); inc = []
            while True:
                T.expect('['); v = P.val(T, ty); T.expect(','); lab = unq(T.next()[1][1:]); T.expect(']'); inc.append((v, lab))
                if not T.accept(','): break
                if T.peek()[0] == 'md': break
            self.defvar(dest, ty); return ('phi', dest, ty, inc)
        if opn == 'alloca':
            T.accept('inalloca'); ty = P.ty(T); cnt = None
            if T.accept(','):
                if T.peek()[1] != 'align' and T.peek()[0] != 'md':
                    ct_ = P.ty(T); cnt = P.val(T, ct_)
            self.defvar(dest, Ty('ptr', elem=ty)); return ('alloca', dest, ty, cnt)
        if opn == 'load':
            atomic = T.accept('atomic'); T.accept('volatile'); ty = P.ty(T); T.expect(','); pt = P.ty(T); p = P.val(T, pt)
            self.defvar(dest, ty); return ('load', dest, ty, p)
        if opn == 'store':
            atomic = T.accept('atomic'); T.accept('volatile'); v = P.tval(T); T.expect(','); pt = P.ty(T); p = P.val(T, pt)
            return ('store', v, p)
        if opn == 'getelementptr':
            T.accept('inbounds'); bt = P.ty(T); T.expect(','); pt = P.ty(T); p = P.val(T, pt); idx = []
            while T.accept(','):
                if T.peek()[0] == 'md': break
                it = P.ty(T); idx.append(P.val(T, it))
            rt = self.gep_result_type(bt, idx)
            self.defvar(dest, rt); return ('gep', dest, bt, p, idx, rt)
        if opn in ('bitcast', 'ptrtoint', 'inttoptr', 'trunc', 'zext', 'sext', 'fptrunc', 'fpext', 'uitofp', 'sitofp', 'fptoui', 'fptosi', 'addrspacecast'):
            st = P.ty(T); v = P.val(T, st); T.expect('to'); dt = P.ty(T)
            self.defvar(dest, dt); return ('cast', dest, opn, v, dt)
        if opn in ('add', 'sub', 'mul', 'and', 'or', 'xor', 'shl', 'lshr', 'ashr', 'udiv', 'sdiv', 'urem', 'srem', 'fadd', 'fsub', 'fmul', 'fdiv', 'frem'):
            while T.peek()[0] == 'word' and T.peek()[1] in ('nsw', 'nuw', 'exact', 'fast', 'nnan', 'ninf', 'nsz', 'arcp', 'contract', 'afn', 'reassoc'): T.next()
            ty = P.ty(T); a = P.val(T, ty); T.expect(','); b = P.val(T, ty)
            self.defvar(dest, ty); return ('bin', dest, opn, ty, a, b)
        if opn == 'fneg':
            while T.peek()[0] == 'word' and T.peek()[1] in ('fast', 'nnan', 'ninf', 'nsz', 'arcp', 'contract', 'afn', 'reassoc'): T.next()
            ty = P.ty(T); a = P.val(T, ty); self.defvar(dest, ty); return ('fneg', dest, ty, a)
        if opn == 'icmp':
            pred = T.next()[1]; ty = P.ty(T); a = P.val(T, ty); T.expect(','); b = P.val(T, ty)
            self.defvar(dest, I1); return ('icmp', dest, pred, ty, a, b)
        if opn == 'fcmp':
            while T.peek()[1] in ('fast', 'nnan', 'ninf', 'nsz', 'arcp', 'contract', 'afn', 'reassoc'): T.next()
            pred = T.next()[1]; ty = P.ty(T); a = P.val(T, ty); T.expect(','); b = P.val(T, ty)
            self.defvar(dest, I1); return ('fcmp', dest, pred, ty, a, b)
        if opn == 'select':
            c = P.tval(T); T.expect(','); a = P.tval(T); T.expect(','); b = P.tval(T)
            self.defvar(dest, a[2]); return ('select', dest, c, a, b)
        if opn == 'freeze':
            a = P.tval(T); self.defvar(dest, a[2]); return ('copy', dest, a)
        if opn == 'br':
            if T.peek()[1] == 'label':
                T.next(); return ('br', unq(T.next()[1][1:]))
            c = P.tval(T); T.expect(','); T.expect('label'); a = unq(T.next()[1][1:]); T.expect(','); T.expect('label'); b = unq(T.next()[1][1:])
            return ('condbr', c, a, b)
        if opn == 'switch':
            v = P.tval(T); T.expect(','); T.expect('label'); d = unq(T.next()[1][1:]); T.expect('['); cases = []
            while not T.accept(']'):
                cv = P.tval(T); T.expect(','); T.expect('label'); cases.append((cv, unq(T.next()[1][1:])))
            return ('switch', v, d, cases)
        if opn == 'ret':
            if T.peek()[1] == 'void': return ('ret', None)
            return ('ret', P.tval(T))
        if opn == 'unreachable': return ('unreachable',)
        if opn == 'resume': return ('resume', P.tval(T))
        if opn in ('call', 'invoke'):
            while T.peek()[0] == 'word' and (T.peek()[1] in ('fastcc', 'ccc', 'coldcc', 'tailcc', 'fast', 'nnan', 'ninf', 'nsz', 'arcp', 'contract', 'afn', 'reassoc') or T.peek()[1] in PARAM_ATTR_WORDS):
                T.next()
            P.skip_param_attrs(T)
            rty = self.call_ret_ty(T)
            callee_tok = T.next()
            if callee_tok[0] == 'gid': callee = ('glob', unq(callee_tok[1][1:]), None)
            elif callee_tok[0] == 'lid': callee = ('loc', unq(callee_tok[1][1:]), None)
            elif callee_tok[1] in ('bitcast',):
                T.i -= 1; callee = P.val(T, I8P)
            else: raise SyntaxError("callee %r" % (callee_tok,))
            T.expect('('); args = []
            if not T.accept(')'):
                while True:
                    at = P.ty(T); aa = P.skip_param_attrs(T)
                    if at.k == 'metadata':
                        # metadata argument (noalias.scope.decl etc.)
                        T.next(); args.append(('md', None, at, aa))
                    else:
                        args.append(P.val(T, at) + (aa,))
                    if T.accept(')'): break
                    T.expect(',')
            nlab = ulab = None
            # skip fn attrs / operand bundles until 'to'
            if opn == 'invoke':
                while T.peek()[1] != 'to': T.next()
                T.next(); T.expect('label'); nlab = unq(T.next()[1][1:]); T.expect('unwind'); T.expect('label'); ulab = unq(T.next()[1][1:])
            if dest is not None: self.defvar(dest, rty if rty.k != 'func' else rty.ret)
            return ('call', dest, rty, callee, args, nlab, ulab)
        if opn == 'landingpad':
            ty = P.ty(T); cleanup = False; clauses = []
            while not T.eof():
                k2, w = T.peek()
                if w == 'cleanup': T.next(); cleanup = True
                elif w == 'catch': T.next(); clauses.append(('catch', P.tval(T)))
                elif w == 'filter': T.next(); clauses.append(('filter', P.tval(T)))
                else: break
            self.defvar(dest, ty); return ('landingpad', dest, ty, cleanup, clauses)
        if opn == 'extractvalue':
            a = P.tval(T); idx = []
            while T.accept(','):
                if T.peek()[0] == 'md': break
                idx.append(int(T.next()[1]))
            rt = self.agg_elem_ty(a[2], idx); self.defvar(dest, rt); return ('extractvalue', dest, a, idx, rt)
        if opn == 'insertvalue':
            a = P.tval(T); T.expect(','); b = P.tval(T); idx = []
            while T.accept(','):
                if T.peek()[0] == 'md': break
                idx.append(int(T.next()[1]))
            self.defvar(dest, a[2]); return ('insertvalue', dest, a, b, idx)
        if opn == 'atomicrmw':
            T.accept('volatile'); o = T.next()[1]; pt = P.ty(T); p = P.val(T, pt); T.expect(','); v = P.tval(T)
            self.defvar(dest, v[2]); return ('atomicrmw', dest, o, p, v)
        if opn == 'cmpxchg':
            T.accept('weak'); T.accept('volatile'); pt = P.ty(T); p = P.val(T, pt); T.expect(','); c = P.tval(T); T.expect(','); n = P.tval(T)
            rt = Ty('struct', fields=[c[2], I1]); self.defvar(dest, rt); return ('cmpxchg', dest, p, c, n, rt)
        if opn == 'fence': return ('nop',)
        if opn == 'va_arg':
            raise ValueError("va_arg unsupported")
        raise SyntaxError("instr? %r in %s" % (s[:100], self.f.name))

    def call_ret_ty(self, T):
        # type up to the callee token (gid/lid/bitcast) at depth 0; may be a full function type for varargs
        j = T.i; depth = 0
        while True:
            k, v = T.t[j]
            if k == 'punct' and v in '({[<': depth += 1
            elif k == 'punct' and v in ')}]>': depth -= 1
            elif depth == 0 and (k == 'gid' or (k == 'lid' and self.is_value_lid(T, j)) or (k == 'word' and v in ('bitcast',) and T.t[j+1][1] == '(')):
                break
            j += 1
        sub = Toks(T.t[T.i:j]); t = self.P.ty(sub); T.i = j
        return t

    def is_value_lid(self, T, j):
        # a %name that is a value rather than a type: a type %name is followed by more type tokens or '*' or '(';
        # the callee is the last lid before '(' at depth 0 whose next token is '(' AND which is not a known named type
        k, v = T.t[j]
        nm = unq(v[1:])
        if nm in self.G.mod.named and not (nm in self.vars or any(p[1] == nm for p in self.params)): return False
        return T.t[j+1][1] == '('

    def gep_result_type(self, bt, idx):
        G = self.G; cur = bt
        for i in idx[1:]:
            cur = G.resolve(cur)
            if cur.k == 'struct': cur = cur.fields[i[1]]
            elif cur.k == 'array': cur = cur.elem
            else: raise ValueError("gep type walk %s" % cur.k)
        return Ty('ptr', elem=cur)

    def agg_elem_ty(self, t, idx):
        G = self.G; cur = t
        for i in idx:
            cur = G.resolve(cur)
            cur = cur.fields[i] if cur.k == 'struct' else cur.elem
        return cur

    def agg_path(self, t, idx):
        G = self.G; cur = t; s = ''
        for i in idx:
            cur = G.resolve(cur)
            if cur.k == 'struct': s += '.f%d' % i; cur = cur.fields[i]
            else: s += '.a[%d]' % i; cur = cur.elem
        return s

    def edge(self, frm, to, out):
        ph = self.phis.get(to, [])
        if not ph:
            out.append('goto L_%s;' % cid(to)); return
        parts = []
        for I in ph:
            val = [v for (v, l) in I[3] if l == frm]
            if not val: raise ValueError("phi %s in %s has no incoming from %s" % (I[1], to, frm))
            parts.append('%s_t = %s;' % (self.v(I[1]), self.op(val[0])))
        for I in ph:
            parts.append('%s = %s_t;' % (self.v(I[1]), self.v(I[1])))
        out.append('{ ' + ' '.join(parts) + ' goto L_%s; }' % cid(to))

    def emit_instr(self, I, lab, out):
        G = self.G; k = I[0]
        if k == 'nop': return
        if k == 'alloca':
            _, d, ty, cnt = I
            if cnt is None or (cnt[0] == 'int' and cnt[1] == 1):
                out.append('{ static int _d; %s = (%s*)__builtin_alloca(sizeof(%s)); }' % (self.v(d), G.ct(ty), G.ct(ty)) if False else
                           '%s = (u8*)&%s_slot;' % (self.v(d), self.v(d)))
                self.vars['%s_slot__' % d] = ty
                # declare slot as separate local
                self.slotdecl = getattr(self, 'slotdecl', [])
            else:
                out.append('%s = IR_ALLOC(sizeof(%s) * (u64)%s);' % (self.v(d), G.ct(ty), self.op(cnt)))
            return
        if k == 'load':
            _, d, ty, p = I; out.append('%s = *(%s*)%s;' % (self.v(d), G.ct(ty), self.op(p))); return
        if k == 'store':
            _, v, p = I; out.append('*(%s*)%s = %s;' % (G.ct(v[2]), self.op(p), self.op(v))); return
        if k == 'gep':
            _, d, bt, p, idx, rt = I
            out.append('%s = %s;' % (self.v(d), self.gep_expr(bt, self.op(p), [(i[2], self.op(i), i) for i in idx], rt))); return
        if k == 'cast':
            _, d, opn, v, dt = I
            if opn == 'ptrtoint' and dt.k == 'int' and dt.bits == 64:
                if not hasattr(self, 'p2i'): self.p2i = {}
                self.p2i[d] = self.op(v)
            out.append('%s = %s;' % (self.v(d), self.cast_expr(opn, v[2], self.op(v), dt))); return
        if k == 'bin':
            _, d, opn, ty, a, b = I
            p2i = getattr(self, 'p2i', {})
            if opn == 'sub' and a[0] == 'loc' and b[0] == 'loc' and a[1] in p2i and b[1] in p2i:
                pa, pb = p2i[a[1]], p2i[b[1]]
                out.append('%s = (%s == (u8*)0 || %s == (u8*)0) ? (u64)((u64)%s - (u64)%s) : (u64)((u8*)%s - (u8*)%s);' % (self.v(d), pa, pb, pa, pb, pa, pb)); return
            out.append('%s = %s;' % (self.v(d), self.bin_expr(opn, ty, self.op(a), self.op(b)))); return
        if k == 'fneg':
            _, d, ty, a = I; out.append('%s = -%s;' % (self.v(d), self.op(a))); return
        if k == 'icmp':
            _, d, pred, ty, a, b = I; out.append('%s = %s;' % (self.v(d), self.icmp_expr(pred, ty, self.op(a), self.op(b)))); return
        if k == 'fcmp':
            _, d, pred, ty, a, b = I
            if pred == 'ord': e = '(!isnan(%s) && !isnan(%s))' % (self.op(a), self.op(b))
            elif pred == 'uno': e = '(isnan(%s) || isnan(%s))' % (self.op(a), self.op(b))
            elif pred == 'true': e = '1'
            elif pred == 'false': e = '0'
            elif pred[0] == 'u' and pred != 'une': e = '(isnan(%s) || isnan(%s) || (%s %s %s))' % (self.op(a), self.op(b), self.op(a), FCMP[pred], self.op(b))
            else: e = '(%s %s %s)' % (self.op(a), FCMP[pred], self.op(b))
            out.append('%s = (u8)%s;' % (self.v(d), e)); return
        if k == 'select':
            _, d, c, a, b = I; out.append('%s = %s ? %s : %s;' % (self.v(d), self.op(c), self.op(a), self.op(b))); return
        if k == 'copy':
            _, d, a = I; out.append('%s = %s;' % (self.v(d), self.op(a))); return
        if k == 'br':
            self.edge(lab, I[1], out); return
        if k == 'condbr':
            _, c, a, b = I
            o1 = []; self.edge(lab, a, o1); o2 = []; self.edge(lab, b, o2)
            out.append('if (%s) %s else %s' % (self.op(c), o1[0], o2[0])); return
        if k == 'switch':
            _, v, d, cases = I
            out.append('switch (%s) {' % self.op(v))
            for cv, l in cases:
                o = []; self.edge(lab, l, o); out.append('  case %s: %s' % (self.op(cv), o[0]))
            o = []; self.edge(lab, d, o); out.append('  default: %s' % o[0]); out.append('}'); return
        if k == 'ret':
            if I[1] is None: out.append('return;')
            else: out.append('return %s;' % self.op(I[1]))
            return
        if k == 'unreachable':
            out.append('IR_UNREACHABLE(); %s' % self.ret_dummy()); return
        if k == 'resume':
            out.append('__ir_exc_resume(%s.f0, %s.f1); %s' % (self.op(I[1]), self.op(I[1]), self.ret_dummy())); return
        if k == 'landingpad':
            _, d, ty, cleanup, clauses = I
            # selector
            tests = []
            for kind, v in clauses:
                if kind == 'catch':
                    tgt = v
                    while tgt[0] == 'ccast': tgt = tgt[1][1]
                    if tgt[0] == 'null': tests.append('__ir_sel = __ir_sel ? __ir_sel : IR_CATCHALL_ID;')
                    else: tests.append('__ir_sel = __ir_sel ? __ir_sel : (__ir_exc_matches(%d) ? %d : 0);' % (G.ti_id(tgt[1]), G.ti_id(tgt[1])))
                else:
                    pass  # filters (exception specs): ignored
            out.append('{ int __ir_sel = 0; %s %s.f0 = (u8*)__ir_exc_obj; %s.f1 = (u32)__ir_sel; __ir_exc_pending = 0; %s }' % (
                ' '.join(tests), self.v(d), self.v(d),
                '' if cleanup else 'if (!__ir_sel) { __ir_exc_pending = 1; %s }' % self.ret_dummy()))
            return
        if k == 'extractvalue':
            _, d, a, idx, rt = I; out.append('%s = %s%s;' % (self.v(d), self.op(a), self.agg_path(a[2], idx))); return
        if k == 'insertvalue':
            _, d, a, b, idx = I
            out.append('%s = %s; %s%s = %s;' % (self.v(d), self.op(a), self.v(d), self.agg_path(a[2], idx), self.op(b))); return
        if k == 'atomicrmw':
            _, d, o, p, v = I
            ops = {'add': '+', 'sub': '-', 'and': '&', 'or': '|', 'xor': '^'}
            pp = '(*(%s*)%s)' % (G.ct(v[2]), self.op(p))
            if o == 'xchg': out.append('%s = %s; %s = %s;' % (self.v(d), pp, pp, self.op(v)))
            elif o in ops: out.append('%s = %s; %s = (%s)(%s %s %s);' % (self.v(d), pp, pp, G.ct(v[2]), self.v(d), ops[o], self.op(v)))
            else: raise ValueError('atomicrmw ' + o)
            return
        if k == 'cmpxchg':
            _, d, p, c, n, rt = I
            pp = '(*(%s*)%s)' % (G.ct(c[2]), self.op(p))
            out.append('%s.f0 = %s; %s.f1 = (u8)(%s.f0 == %s); if (%s.f1) %s = %s;' % (self.v(d), pp, self.v(d), self.v(d), self.op(c), self.v(d), pp, self.op(n)))
            return
        if k == 'call':
            self.emit_call(I, lab, out); return
        raise ValueError("emit %s" % k)

    def ret_dummy(self):
        t = self.f.ret
        if t.k == 'void': return 'return;'
        return 'return %s;' % self.G.zero_value(t)

    def emit_call(self, I, lab, out):
        G = self.G
        _, d, rty, callee, args, nlab, ulab = I
        fty = None
        if rty.k == 'func': fty = rty; rt = rty.ret
        else: rt = rty
        name = callee[1] if callee[0] == 'glob' else None
        if name is not None: name = G.mod.aliases.get(name, name)
        argv = [a for a in args if a[0] != 'md']
        aexprs = []
        for a in argv:
            e = self.op(a[:3])
            byval = [x for x in a[3] if isinstance(x, tuple) and x[0] == 'byval']
            if byval:
                self.tmpn += 1
                et = a[2].elem; tn = 'bv%d' % self.tmpn
                self.vars['%s_slot__' % tn] = et
                out.append('%s_slot = *(%s*)%s;' % (self.v(tn), G.ct(et), e)); e = '(u8*)&%s_slot' % self.v(tn)
            aexprs.append(e)
        # intrinsics
        if name and name.startswith('llvm.'):
            r = self.intrinsic(name, d, rt, argv, aexprs)
            if r is not None:
                if r: out.append(r)
                if nlab: self.edge(lab, nlab, out)
                return
        if name is not None:
            G.need_fn(name)
            fn = G.mod.funcs.get(name)
            target = G.fname(name)
            # cast args to declared param types when a function type was given or types mismatch
            call = '%s(%s)' % (target, ', '.join(self.coerce_args(fn, argv, aexprs)))
        else:
            if callee[0] == 'loc': ce = self.v(callee[1])
            else: ce = self.op(callee)
            pt = ', '.join(G.ct(a[2]) for a in argv)
            if fty is not None and fty.vararg: pt = pt + ', ...' if pt else '...'
            if not pt: pt = 'void'
            call = '((%s(*)(%s))%s)(%s)' % (G.ct(rt), pt, ce, ', '.join(aexprs))
        if d is not None and rt.k != 'void': out.append('%s = %s;' % (self.v(d), call))
        else: out.append('%s;' % call)
        if nlab:
            o1 = []; self.edge(lab, nlab, o1); o2 = []; self.edge(lab, ulab, o2)
            out.append('if (__ir_exc_pending) %s else %s' % (o2[0], o1[0]))
        else:
            if not G.is_nothrow(name):
                out.append('if (__ir_exc_pending) { %s }' % self.ret_dummy())

    def coerce_args(self, fn, argv, aexprs):
        G = self.G
        if fn is None: return aexprs
        res = []
        for i, e in enumerate(aexprs):
            if i < len(fn.params):
                pt = fn.params[i][0]
                pass
            res.append(e)
        return res

    def intrinsic(self, name, d, rt, argv, ae):
        G = self.G; v = self.v
        if name.startswith(('llvm.lifetime.', 'llvm.experimental.noalias', 'llvm.dbg.', 'llvm.assume', 'llvm.invariant.', 'llvm.prefetch', 'llvm.donothing', 'llvm.var.annotation')): return ''
        if name.startswith('llvm.memcpy.'): return 'IR_MEMCPY(%s, %s, %s);' % (ae[0], ae[1], ae[2])
        if name.startswith('llvm.memmove.'): return 'IR_MEMMOVE(%s, %s, %s);' % (ae[0], ae[1], ae[2])
        if name.startswith('llvm.memset.'): return 'IR_MEMSET(%s, %s, %s);' % (ae[0], ae[1], ae[2])
        if name.startswith('llvm.expect.'): return '%s = %s;' % (v(d), ae[0])
        if name == 'llvm.trap' or name == 'llvm.debugtrap': return 'IR_TRAP();'
        if name == 'llvm.eh.typeid.for':
            tgt = argv[0]
            while tgt[0] == 'ccast': tgt = tgt[1][1]
            return '%s = %s;' % (v(d), 'IR_CATCHALL_ID' if tgt[0] == 'null' else str(G.ti_id(tgt[1])))
        m = re.match(r'llvm\.(umax|umin|smax|smin)\.i(\d+)', name)
        if m:
            o, b = m.group(1), int(m.group(2)); t = argv[0][2]
            if o[0] == 'u': a, b2 = ae[0], ae[1]
            else: a, b2 = self.sext_expr(ae[0], t), self.sext_expr(ae[1], t)
            cmp = '>' if o.endswith('max') else '<'
            return '%s = (%s %s %s) ? %s : %s;' % (v(d), a, cmp, b2, ae[0], ae[1])
        m = re.match(r'llvm\.(ctlz|cttz|ctpop|bswap|abs)\.i(\d+)', name)
        if m:
            o, b = m.group(1), int(m.group(2))
            if o == 'abs': return '%s = (%s)((%s < 0) ? -%s : %s);' % (v(d), G.ct(rt), self.sext_expr(ae[0], rt), self.sext_expr(ae[0], rt), self.sext_expr(ae[0], rt))
            return '%s = (%s)IR_%s(%s, %d);' % (v(d), G.ct(rt), o.upper(), '(u64)' + ae[0] if b <= 64 else ae[0], b)
        m = re.match(r'llvm\.(u|s)(add|sub|mul)\.with\.overflow\.i(\d+)', name)
        if m:
            sg, o, b = m.group(1), m.group(2), int(m.group(3))
            return 'IR_%s%s_OV(%d, %s, %s, %s.f0, %s.f1);' % (sg.upper(), o.upper(), b, ae[0], ae[1], v(d), v(d))
        m = re.match(r'llvm\.(u|s)(add|sub)\.sat\.i(\d+)', name)
        if m: raise ValueError(name)
        if name.startswith('llvm.objectsize.'): return '%s = (%s)-1;' % (v(d), G.ct(rt))
        if name.startswith('llvm.fmuladd.'): return '%s = %s * %s + %s;' % (v(d), ae[0], ae[1], ae[2])
        if name.startswith('llvm.fabs.'): return '%s = fabs(%s);' % (v(d), ae[0])
        if name.startswith('llvm.stacksave'): return '%s = (u8*)0;' % v(d)
        if name.startswith('llvm.stackrestore'): return ''
        if name.startswith(('llvm.va_start', 'llvm.va_end', 'llvm.va_copy')): raise ValueError("varargs body unsupported: " + name)
        raise ValueError("intrinsic %s" % name)

# --------------------------------------------------------------------------- whole-module generation
class Gen(CGen):
    def __init__(self, mod, models, opts):
        super().__init__(mod, models, opts)
        self.fn_needed = []; self.fn_seen = set()
        self.g_needed = []; self.g_seen = set()
        self.ti_seen = {}

    def fname(self, name):
        name = self.mod.aliases.get(name, name)
        if name in self.models: return 'M_' + cid(self.models[name][1])
        return 'f_' + cid(name)

    def need_fn(self, name):
        name = self.mod.aliases.get(name, name)
        if name not in self.fn_seen:
            self.fn_seen.add(name); self.fn_needed.append(name)

    def is_nothrow(self, name):
        if name is None: return False
        if name in self.models: return self.models[name][0] == 'nothrow'
        f = self.mod.funcs.get(name)
        if f is None: return False
        at = getattr(f, 'attrtext', '')
        for ref in re.findall(r'#\d+', at):
            if 'nounwind' in self.mod.attrs.get(ref, ''): return True
        return 'nounwind' in at

    def ti_id(self, gname):
        if gname not in self.ti_seen: self.ti_seen[gname] = len(self.ti_seen) + 2
        return self.ti_seen[gname]

    def globref(self, name, ty):
        name = self.mod.aliases.get(name, name)
        if name in self.mod.funcs:
            self.need_fn(name)
            return '((u8*)&%s)' % self.fname(name)
        if name not in self.g_seen:
            self.g_seen.add(name); self.g_needed.append(name)
        if name.startswith('_ZTI'): self.ti_id(name)
        return '((u8*)&g_%s)' % cid(name)

    def zero_value(self, t):
        r = self.resolve(t)
        if r.k in ('int', 'ptr', 'float', 'double', 'fp80'): return '((%s)0)' % self.ct(t)
        return '((%s){0})' % self.ct(t)

    def float_lit(self, x, ty):
        if x.startswith('0x') and ty.k in ('double', 'float') and x[2] not in 'KLMHR':
            return 'IR_F64(0x%sULL)' % x[2:] if ty.k == 'double' else '((float)IR_F64(0x%sULL))' % x[2:]
        if x.startswith('0x'): raise ValueError("fp80 literal")
        return x

    def bitpattern_cast(self, e, st, dt):
        return 'IR_BITCAST(%s, %s, %s)' % (self.ct(st), self.ct(dt), e)

    def const_compound_expr(self, val):
        return '(%s)%s' % (self.ct(val[2]), self.const_init(val))

    # static initialiser text
    def const_init(self, val):
        kind, x, ty = val
        r = self.resolve(ty)
        if kind == 'zero' or kind == 'undef':
            return '{0}' if r.k in ('struct', 'array') else '0'
        if kind == 'cstr':
            return '{{' + ','.join(str(b) for b in x) + '}}'
        if kind == 'carray':
            if not x: return '{0}'
            return '{{' + ', '.join(self.const_init(e) for e in x) + '}}'
        if kind == 'cstruct':
            if not x: return '{0}'
            return '{' + ', '.join(self.const_init(e) for e in x) + '}'
        # scalar: reuse operand translation with a dummy FnTrans
        ft = FnTrans(self, Func('__const', VOID, [], False, []))
        return ft.op(val)

    def generate(self, roots):
        for r in roots: self.need_fn(r)
        fn_out = []; protos = []
        i = 0
        while i < len(self.fn_needed):
            name = self.fn_needed[i]; i += 1
            f = self.mod.funcs.get(name)
            if f is None: raise KeyError("unknown function " + name)
            if name in self.models:
                mc = 'M_' + cid(self.models[name][1])
                if self.resolve(f.ret).k in ('struct', 'array'):
                    protos.append('typedef %s R_%s;' % (self.ct(f.ret), cid(self.models[name][1])))
                protos.append(self.proto(f, mc) + ';'); continue
            if f.body is None:
                # unmodelled external
                head = self.proto(f, 'f_' + cid(name))
                protos.append(head + ';')
                if name in getattr(self.mod, 'noop', ()):
                    fn_out.append(head + ' { %s }' % ('return;' if f.ret.k == 'void' else 'return %s;' % self.zero_value(f.ret)))
                else:
                    fn_out.append(head + ' { IR_UNMODELLED("%s"); %s }' % (name, 'return;' if f.ret.k == 'void' else 'return %s;' % self.zero_value(f.ret)))
                continue
            ft = FnTrans(self, f)
            try:
                head, body = ft.translate()
            except Exception as e:
                raise RuntimeError("in function %s: %s" % (name, e)) from e
            # slots for allocas
            slot_decls = []
            newbody = []
            for ln in body:
                m = re.match(r'\s+(.*) v_(\S+)_slot__;$', ln)
                newbody.append(ln)
            protos.append(head + ';'); fn_out.append(head + '\n' + '\n'.join(self.fix_slots(body)))
        # globals
        g_out = []; g_decl = []
        j = 0
        while j < len(self.g_needed):
            name = self.g_needed[j]; j += 1
            g = self.mod.globals.get(name)
            if g is None: raise KeyError("unknown global " + name)
            cty = self.ct(g.ty)
            if g.external or g.init is None:
                g_decl.append('%s g_%s; /* external */' % (cty, cid(name)))
            else:
                init = self.const_init(g.init)
                g_decl.append('%s g_%s;' % (cty, cid(name)))
                g_out.append('%s g_%s = %s;' % (cty, cid(name), init))
            # new functions/globals may have been referenced by the initialiser
            while i < len(self.fn_needed):
                name2 = self.fn_needed[i]; i += 1
                f = self.mod.funcs.get(name2)
                if name2 in self.models: protos.append(self.proto(f, 'M_' + cid(self.models[name2][1])) + ';'); continue
                if f.body is None:
                    head = self.proto(f, 'f_' + cid(name2)); protos.append(head + ';')
                    if name2 in getattr(self.mod, 'noop', ()):
                        fn_out.append(head + ' { %s }' % ('return;' if f.ret.k == 'void' else 'return %s;' % self.zero_value(f.ret)))
                    else:
                        fn_out.append(head + ' { IR_UNMODELLED("%s"); %s }' % (name2, 'return;' if f.ret.k == 'void' else 'return %s;' % self.zero_value(f.ret)))
                    continue
                ft = FnTrans(self, f); head, body = ft.translate()
                protos.append(head + ';'); fn_out.append(head + '\n' + '\n'.join(self.fix_slots(body)))
        types = self.emit_types()
        ti = self.emit_typeinfo()
        return types, g_decl, protos, ti, g_out, fn_out

    def fix_slots(self, body):
        out = []
        for ln in body:
            m = re.match(r'^(\s+)(.*) (v_\S+)_slot__;$', ln)
            if m: out.append('%s%s %s_slot = {0};' % (m.group(1), m.group(2), m.group(3)))
            else: out.append(ln)
        return out

    def proto(self, f, cname):
        ps = ', '.join(self.ct(p[0]) for p in f.params)
        if f.vararg: ps = ps + ', ...' if ps else '...'
        if not ps: ps = 'void'
        return '%s %s(%s)' % (self.ct(f.ret), cname, ps)

    def emit_typeinfo(self):
        # class hierarchy for catch matching: thrown type id -> list of base ids (transitive)
        out = ['static int __ir_ti_is_a(int thrown, int target) {', '  if (thrown == target) return 1;']
        for gname, tid in list(self.ti_seen.items()):
            bases = self.ti_bases(gname, set())
            for b in bases:
                out.append('  if (thrown == %d && target == %d) return 1;' % (tid, self.ti_id(b)))
        out.append('  return 0;'); out.append('}')
        out.append('static int __ir_ti_of(u8* p) {')
        for gname, tid in list(self.ti_seen.items()):
            if gname in self.g_seen: out.append('  if (p == (u8*)&g_%s) return %d;' % (cid(gname), tid))
        out.append('  return 0;'); out.append('}')
        names = ['/* typeinfo ids: ' + ', '.join('%s=%d' % (g, t) for g, t in self.ti_seen.items()) + ' */']
        return names + out

    def ti_bases(self, gname, seen):
        res = []
        g = self.mod.globals.get(gname)
        if g is None or g.init is None or g.init[0] != 'cstruct': return res
        for el in g.init[1][2:]:
            t = el
            while t[0] == 'ccast': t = t[1][1]
            if t[0] == 'glob' and t[1].startswith('_ZTI') and t[1] not in seen:
                seen.add(t[1]); res.append(t[1]); res += self.ti_bases(t[1], seen)
        return res

PRELUDE = r'''
#include <stdint.h>
#include <stddef.h>
#include <stdlib.h>
#include <string.h>
typedef uint8_t u8; typedef uint16_t u16; typedef uint32_t u32; typedef uint64_t u64; typedef unsigned __int128 u128;
#ifdef __CPROVER__
#define IR_ASSERT(c, msg) __CPROVER_assert(c, msg)
#define IR_ASSUME(c) __CPROVER_assume(c)
#else
#include <assert.h>
#include <stdio.h>
#define IR_ASSERT(c, msg) do { if(!(c)) { fprintf(stderr, "IR_ASSERT failed: %s\n", msg); abort(); } } while(0)
#define IR_ASSUME(c) do { if(!(c)) { fprintf(stderr, "IR_ASSUME violated\n"); exit(3); } } while(0)
#endif
#define IR_UNREACHABLE() do { IR_ASSERT(0, "llvm unreachable reached"); IR_ASSUME(0); } while(0)
#define IR_UNMODELLED(n) do { IR_ASSERT(0, "INCONCLUSIVE: unmodelled external reached: " n); IR_ASSUME(0); } while(0)
#define IR_TRAP() do { IR_ASSERT(0, "llvm.trap reached"); IR_ASSUME(0); } while(0)
#ifdef IR_BUILTIN_MEM
#define IR_MEMCPY(d,s,n) memcpy((void*)(d),(const void*)(s),(size_t)(n))
#define IR_MEMMOVE(d,s,n) memmove((void*)(d),(const void*)(s),(size_t)(n))
#define IR_MEMSET(d,c,n) memset((void*)(d),(int)(c),(size_t)(n))
#else
static inline void IR_MEMCPY(void* d, const void* s, u64 n) { for (u64 i = 0; i < n; i++) ((u8*)d)[i] = ((const u8*)s)[i]; }
static inline void IR_MEMMOVE(void* d, const void* s, u64 n) { if ((u64)d <= (u64)s) { for (u64 i = 0; i < n; i++) ((u8*)d)[i] = ((const u8*)s)[i]; } else { for (u64 i = n; i > 0; i--) ((u8*)d)[i-1] = ((const u8*)s)[i-1]; } }
static inline void IR_MEMSET(void* d, int c, u64 n) { for (u64 i = 0; i < n; i++) ((u8*)d)[i] = (u8)c; }
#endif
/* pointer equality: written over (object, offset) so that the symbolic executor's simplifier can decide
   `first != last` loops of libstdc++ iterators instead of leaving them to the solver */
#ifdef __CPROVER__
#define IR_PTR_EQ(a,b) (__CPROVER_POINTER_OBJECT(a) == __CPROVER_POINTER_OBJECT(b) && __CPROVER_POINTER_OFFSET(a) == __CPROVER_POINTER_OFFSET(b))
#else
#define IR_PTR_EQ(a,b) ((a) == (b))
#endif
/* allocation: CBMC models malloc'd objects as byte arrays and does not fold a pointer that was stored into
   one and read back, so every `first != last` / `node != 0` loop of the C++ containers would run to its unwind
   bound.  Reads from u64-typed static arrays do fold; the models therefore allocate from word-typed pools
   (three size classes).  Blocks are never reused: free() is a no-op here, so use-after-free is not detected
   by units built on this allocator (stated where it matters). */
#if defined(__CPROVER__) && defined(IR_POOL)
#ifndef IR_POOL_S
#define IR_POOL_S 256
#endif
#ifndef IR_POOL_M
#define IR_POOL_M 192
#endif
#ifndef IR_POOL_B
#define IR_POOL_B 48
#endif
IR_POOL_DECLS
#define IR_FREE(p) ((void)(p))
#else
int ir_dynamic = 0;
#ifdef __CPROVER__
/* units with symbolic strings and few allocations (C12, C15): plain malloc with constant sizes */
static u8* IR_ALLOC(u64 n) { u8* p; if (n <= 64) p = (u8*)malloc(64); else { IR_ASSERT(n <= 1400, "BOUND: allocation larger than the model capacity"); IR_ASSUME(n <= 1400); p = (u8*)malloc(1400); } IR_ASSUME(p != 0); return p; }
#else
static u8* IR_ALLOC(u64 n) { u8* p = (u8*)malloc(n ? n : 1); if (!p) abort(); return p; }
#endif
#define IR_FREE(p) free(p)
#endif
#define IR_SDIV(a,b) ((a)/(b))
#define IR_SREM(a,b) ((a)%(b))
#if defined(__CPROVER__) && defined(IR_UF_ARITH)
/* uninterpreted 32-bit * / %: the fault conditions stay explicit assertions, the value is an uninterpreted function
   of the operand *magnitudes* with the sign put back (identities of two's-complement multiplication and of C's truncating
   division), commutative for *, exact for operands 0 and 1.  The harness' reference uses the same functions: equality of
   the two sides then follows by congruence, and a compiler's operand order or sign rewriting does not matter. */
u32 __CPROVER_uninterpreted_mul32(u32, u32); u32 __CPROVER_uninterpreted_udiv32(u32, u32); u32 __CPROVER_uninterpreted_urem32(u32, u32);
static inline u32 ir_mag32(u32 a) { return ((int32_t)a < 0) ? 0u - a : a; }
static inline u32 IR_MUL32(u32 a, u32 b) {
  if (a == 0 || b == 0) return 0;
  u32 x = ir_mag32(a), y = ir_mag32(b); u32 m = x == 1 ? y : y == 1 ? x : x < y ? __CPROVER_uninterpreted_mul32(x, y) : __CPROVER_uninterpreted_mul32(y, x);
  return (((int32_t)a < 0) != ((int32_t)b < 0)) ? 0u - m : m; }
static inline int32_t ir_uf_sdiv32(int32_t a, int32_t b) { u32 q = b == 1 || b == -1 ? ir_mag32((u32)a) : __CPROVER_uninterpreted_udiv32(ir_mag32((u32)a), ir_mag32((u32)b)); return (int32_t)(((a < 0) != (b < 0)) ? 0u - q : q); }
static inline int32_t ir_uf_srem32(int32_t a, int32_t b) { u32 r = b == 1 || b == -1 ? 0u : __CPROVER_uninterpreted_urem32(ir_mag32((u32)a), ir_mag32((u32)b)); return (int32_t)((a < 0) ? 0u - r : r); }
static inline int32_t IR_SDIV32(int32_t a, int32_t b) { __CPROVER_assert(b != 0, "division by zero"); __CPROVER_assert(!(a == (-2147483647 - 1) && b == -1), "arithmetic overflow on signed division"); return ir_uf_sdiv32(a, b); }
static inline int32_t IR_SREM32(int32_t a, int32_t b) { __CPROVER_assert(b != 0, "division by zero"); __CPROVER_assert(!(a == (-2147483647 - 1) && b == -1), "arithmetic overflow on signed division"); return ir_uf_srem32(a, b); }
#else
#define IR_MUL32(a,b) ((u32)((a)*(b)))
#define IR_SDIV32(a,b) ((a)/(b))
#define IR_SREM32(a,b) ((a)%(b))
#endif
#define IR_CATCHALL_ID 1
static inline u64 IR_CTPOP(u64 x, int bits) { u64 n = 0; for (int i = 0; i < bits; i++) n += (x >> i) & 1; return n; }
static inline u64 IR_CTTZ(u64 x, int bits) { u64 n = 0; while (n < (u64)bits && !((x >> n) & 1)) n++; return n; }
static inline u64 IR_CTLZ(u64 x, int bits) { u64 n = 0; while (n < (u64)bits && !((x >> (bits - 1 - n)) & 1)) n++; return n; }
static inline u64 IR_BSWAP(u64 x, int bits) { u64 r = 0; for (int i = 0; i < bits / 8; i++) r |= ((x >> (8 * i)) & 0xff) << (bits - 8 - 8 * i); return r; }
static inline double IR_F64(u64 b) { double d; memcpy(&d, &b, 8); return d; }
#define IR_UADD_OV(b,x,y,r,o) do { u128 _t = (u128)(x) + (u128)(y); r = _t; o = (u8)((_t >> (b)) != 0); } while(0)
#define IR_UMUL_OV(b,x,y,r,o) do { u128 _t = (u128)(x) * (u128)(y); r = _t; o = (u8)((_t >> (b)) != 0); } while(0)
#define IR_USUB_OV(b,x,y,r,o) do { r = (x) - (y); o = (u8)((y) > (x)); } while(0)
/* exception state (Itanium EH modelled by a pending flag) */
int __ir_exc_pending = 0; void* __ir_exc_obj = 0; int __ir_exc_ti = 0;
void* __ir_caught_obj[4]; int __ir_caught_ti[4]; int __ir_caught_n = 0;
static int __ir_ti_is_a(int thrown, int target); static int __ir_ti_of(u8* p);
static inline int __ir_exc_matches(int target) { return __ir_ti_is_a(__ir_exc_ti, target); }
static inline void __ir_exc_resume(u8* obj, u32 sel) { __ir_exc_pending = 1; __ir_exc_obj = obj; }
'''

def pool_decls(ns=1200, nm=320, nb=64):
    """Every allocation gets its own word-typed static array (own SSA symbol): a symbolic branch that writes one
    object then only merges that object, and reads of constant cells keep folding."""
    out = []
    for cls, n, words in (('s', ns, 8), ('m', nm, 24), ('b', nb, 176)):
        out.append(' '.join('static u64 ir_%s%d[%d];' % (cls, i, words) for i in range(n)))
        out.append('static unsigned ir_n%s = 0;' % cls)
        out.append('static u8* ir_alloc_%s(void) { switch (ir_n%s++) { %s default: IR_ASSERT(0, "BOUND: allocation pool (%s) exhausted"); IR_ASSUME(0); return (u8*)0; } }' % (
            cls, cls, ' '.join('case %d: return (u8*)ir_%s%d;' % (i, cls, i) for i in range(n)), cls))
    # allocations made while symbolic control flow is active (harness sets ir_dynamic = 1 before the unit under test runs):
    # the counter may then be symbolic, so these come from one two-dimensional arena (symbolic row index) instead of
    # being selected by a switch over hundreds of separate objects
    out.append('static u64 ir_dyn[160][8]; static unsigned ir_nd = 0; int ir_dynamic = 0;')
    out.append('static u8* IR_ALLOC(u64 n) { if (ir_dynamic && n <= 64) { IR_ASSERT(ir_nd < 160, "BOUND: dynamic arena exhausted"); IR_ASSUME(ir_nd < 160); return (u8*)ir_dyn[ir_nd++]; } '
               'if (n <= 64) return ir_alloc_s(); if (n <= 192) return ir_alloc_m(); IR_ASSERT(n <= 1408, "BOUND: allocation larger than the largest pool block"); IR_ASSUME(n <= 1408); return ir_alloc_b(); }')
    return '\n'.join(out)


def main():
    ap = argparse.ArgumentParser()
    ap.add_argument('ll'); ap.add_argument('--root', action='append', default=[]); ap.add_argument('--models', action='append', default=[])
    ap.add_argument('--noop', action='append', default=[])
    ap.add_argument('-o', default='-'); ap.add_argument('--stub', action='append', default=[])
    a = ap.parse_args()
    models = {}
    for mf in a.models:
        for ln in open(mf):
            ln = ln.split('#')[0].strip()
            if not ln: continue
            parts = ln.split()
            kind = parts[1] if len(parts) > 1 else 'maythrow'
            tgt = parts[0]
            if '=' in kind: kind, tgt = kind.split('=', 1)
            models[parts[0]] = (kind, tgt)
    sys.setrecursionlimit(100000)
    mod = parse_module(open(a.ll).read())
    for pat in a.stub:
        rx = re.compile(pat)
        for n, f in mod.funcs.items():
            if rx.search(n): f.body = None
    noop = set()
    for pat in a.noop:
        rx = re.compile(pat)
        for n, f in mod.funcs.items():
            if rx.search(n) and n not in models: f.body = None; noop.add(n)
    mod.noop = noop
    G = Gen(mod, models, a)
    types, g_decl, protos, ti, g_out, fn_out = G.generate(a.root)
    out = [PRELUDE.replace('IR_POOL_DECLS', pool_decls())]
    out += types
    out.append('/* ---- globals (declarations) */'); out += g_decl
    out.append('/* ---- prototypes */'); out += list(collections.OrderedDict.fromkeys(protos))
    out += ti
    out.append('/* ---- global initialisers */'); out += g_out
    out.append('/* ---- functions */'); out += fn_out
    txt = '\n'.join(out) + '\n'
    if a.o == '-': sys.stdout.write(txt)
    else: open(a.o, 'w').write(txt)

if __name__ == '__main__':
    main()
