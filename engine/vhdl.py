"""Route C: the combinational equations of the micro-stepper architecture emitted by `uscxml-transform -tvhdl`
are parsed (and/or/not over named signals) and re-emitted as straight-line C in dependency order."""
import re
from common import *

WANTED = re.compile(r'^(in_optimal_transition_set_\d+_sig|optimal_transition_set_combined_sig|spontaneous_active|in_exit_set_\d+_sig|'
                    r'in_complete_entry_set_up_\d+_sig|in_complete_entry_set_\d+_sig|in_entry_set_\d+_sig|state_next_\d+_sig)$')


def parse(path):
    txt = open(path).read()
    # concurrent assignments outside processes: "name <=\n  expr\n;"  (the ones inside clocked processes are indented deeper and end on the same line)
    eqs = {}
    for m in re.finditer(r'^ (\w+) <=\n(.*?)\n;', txt, re.S | re.M):
        name, body = m.group(1), m.group(2)
        if WANTED.match(name):
            if name in eqs:
                raise InfraError('VHDL signal %s assigned twice' % name)
            eqs[name] = body
    if not eqs:
        raise InfraError('no micro-step equations found in ' + path)
    return eqs


def to_c(expr):
    toks = re.findall(r"'[01]'|\w+|[()]", expr)
    out = []
    for t in toks:
        if t == "'0'": out.append('0')
        elif t == "'1'": out.append('1')
        elif t == 'and': out.append('&&')
        elif t == 'or': out.append('||')
        elif t == 'not': out.append('!')
        elif t in '()': out.append(t)
        else: out.append(t)
    # sanity: only known token kinds
    rest = re.sub(r"'[01]'|\w+|[()]|\s+", '', expr)
    if rest:
        raise InfraError('unexpected characters in VHDL expression: %r' % rest[:40])
    return ' '.join(out)


def emit_c(eqs, path):
    """Returns (inputs, outputs); writes a C function body `vhdl_eval()` over global ints named like the signals."""
    deps = {n: set(re.findall(r'\b[a-zA-Z_]\w*\b', b)) - {'and', 'or', 'not'} for n, b in eqs.items()}
    inputs = sorted(set().union(*deps.values()) - set(eqs))
    order, seen, onstack = [], set(), set()
    def visit(n):
        if n in seen: return
        if n in onstack: raise InfraError('combinational loop through ' + n)
        onstack.add(n)
        for d in sorted(deps[n]):
            if d in eqs: visit(d)
        onstack.discard(n); seen.add(n); order.append(n)
    for n in sorted(eqs): visit(n)
    with open(path, 'w') as f:
        f.write('/* generated from the emitted VHDL: %d equations, inputs: %s */\n' % (len(eqs), ' '.join(inputs)))
        for n in inputs + order:
            f.write('static int %s;\n' % n)
        f.write('static void vhdl_eval(void) {\n')
        for n in order:
            f.write('  %s = %s;\n' % (n, to_c(eqs[n])))
        f.write('}\n')
    return inputs, order
