"""Shared driver for the one-step queries on emitted ANSI-C machines (C02, C04 and the emitted-C parts of
C07/C08/C10/C11): document selection, parallel CBMC runs, witness twins, counterexample replay."""
import re, os, random, json
from common import *
import chartgen, genc

KEV = 2


def excluded_by_finding(chart, prop_ids):
    """Name of the known finding whose structural predicate this document matches (it is then outside the claim)."""
    kf = json.load(open(os.path.join(VERIF, 'known_findings.json')))
    for f in kf.get('findings', []):
        if f.get('subject', 'emitted-c') != 'emitted-c':
            continue
        if f.get('property') in prop_ids and f.get('doc_predicate') and chartgen.FINDING_PREDICATES[f['doc_predicate']](chart):
            return f['id']
    return None


def documents(tier, seed, n_random=None, n_corpus=None, max_states=None):
    """Feature charts (always), seeded random charts, and a seeded sample of corpus shapes."""
    rng = random.Random(seed)
    docs = [('feature', c) for c in chartgen.feature_charts()]
    if n_random is None:
        n_random = 14 if tier == 'quick' else 160
    if n_corpus is None:
        n_corpus = 6 if tier == 'quick' else 80
    ms = max_states or (7 if tier == 'quick' else 10)
    for i in range(n_random):
        docs.append(('random', chartgen.random_chart(rng, max_states=ms, max_trans=5 if tier == 'quick' else 7, name='rnd%d_%d' % (seed, i))))
    corpus = chartgen.corpus_charts(REPO, max_states=14 if tier == 'quick' else 24, max_trans=10 if tier == 'quick' else 16)
    rng.shuffle(corpus)
    for c in corpus[:n_corpus]:
        docs.append(('corpus', c))
    return docs


class StepRun:
    def __init__(self, chk, W, tier):
        self.chk, self.W, self.tier = chk, W, tier
        self.prepared = {}

    def filter_known(self, docs, prop_ids):
        keep = []
        for kind, c in docs:
            fid = excluded_by_finding(c, prop_ids)
            if fid:
                self.chk.extra.setdefault('documents_outside_claim_known_finding', []).append({'doc': c.name, 'finding': fid, 'shape': c.describe()[:160]})
            else:
                keep.append((kind, c))
        return keep

    def known_finding_witnesses(self, prop, timeout):
        """Re-run the recorded witness of every known finding of this property: KNOWN-FINDING line while it still fails."""
        kf = json.load(open(os.path.join(VERIF, 'known_findings.json')))
        for f in kf.get('findings', []):
            if f.get('property') != prop or 'witness_scxml' not in f or f.get('subject', 'emitted-c') != 'emitted-c':
                continue
            sx = os.path.join(self.W, 'kf_' + f['id'] + '.scxml')
            open(sx, 'w').write(f['witness_scxml'])
            c = chartgen.from_scxml(sx, name='kf_' + f['id'])
            try:
                gc, fh = genc.prepare(c, self.W, 'kf_' + f['id'])
            except InfraError as e:
                self.chk.infra_problem('known-finding witness %s cannot be prepared: %s' % (f['id'], str(e)[:200])); continue
            r = genc.step_query(gc, fh, f['mode'], kev=KEV, variant=f.get('variant', 1), dvariant=f.get('dvariant'), timeout=timeout)
            self.chk.query('known-finding/%s' % f['id'], r, note=f['what'][:200], nontrivial=False)
            if r.status == 'failed' and any(d.startswith(f.get('assert_prefix', prop)) for n, d in r.failed):
                self.chk.known('%s: %s' % (f['id'], f['what']))
            elif r.status == 'success':
                self.chk.extra.setdefault('known_findings_no_longer_reproducing', []).append(f['id'])
            else:
                self.chk.extra.setdefault('known_findings_inconclusive', []).append({'id': f['id'], 'status': r.status})

    def prepare(self, docs):
        ok = []
        def prep(d):
            kind, c = d
            try:
                gc, fh = genc.prepare(c, self.W, c.name)
                return (kind, c, gc, fh, None)
            except InfraError as e:
                return (kind, c, None, None, str(e))
        for kind, c, gc, fh, err in pmap(prep, docs):
            if err:
                # a document our generator produced but the transformer rejects / we cannot map: not covered
                self.chk.extra.setdefault('documents_not_prepared', []).append({'doc': c.name, 'why': err[:300]})
                if kind == 'feature':
                    self.chk.infra_problem('feature document %s could not be prepared: %s' % (c.name, err[:300]))
                continue
            ok.append((kind, c, gc, fh))
        return ok

    def run(self, prepared, queries, timeout, prop_prefix, required_kinds=('feature',), mem_gb=12):
        """queries: list of dict(name, mode, variant, dvariant, witness_once).  Returns list of violations found."""
        chk = self.chk
        jobs = []
        for kind, c, gc, fh in prepared:
            for q in queries:
                jobs.append((kind, c, gc, fh, q, False))
                if q.get('witness'):
                    jobs.append((kind, c, gc, fh, q, True))

        def job(j):
            kind, c, gc, fh, q, wit = j
            return genc.step_query(gc, fh, q['mode'], kev=KEV, variant=q.get('variant', 1), dvariant=q.get('dvariant'), witness=wit,
                                   timeout=timeout, extra_defs=q.get('defs', ()), mem_gb=mem_gb)
        res = pmap(job, jobs)
        table = {}
        for j, r in zip(jobs, res):
            table[(j[1].name, j[4]['name'], j[5])] = r
        inconclusive = 0
        total = 0
        for kind, c, gc, fh in prepared:
            for q in queries:
                r = table[(c.name, q['name'], False)]
                w = table.get((c.name, q['name'], True))
                total += 1
                chk.query('%s/%s' % (c.name, q['name']), r, bound='%d states, %d transitions, KEV=%d' % (len(c.nodes), len(c.trans), KEV), witness=w,
                          note=c.describe() if len(c.describe()) < 200 else c.describe()[:200] + '...')
                if w is not None and w.status != 'failed':
                    chk.infra_problem('%s/%s: reachability witness not violated (%s): harness vacuous' % (c.name, q['name'], w.status))
                if r.status == 'success':
                    continue
                if r.status != 'failed':
                    inconclusive += 1
                    if kind in required_kinds:
                        chk.infra_problem('%s/%s: no verdict (%s) within %ds on a required document' % (c.name, q['name'], r.status, timeout))
                    continue
                props = sorted(set(d for n, d in r.failed))
                other = [d for d in props if not d.startswith(prop_prefix) and not re.match(r'C\d\d', d)]
                mine = [d for d in props if d.startswith(prop_prefix)]
                if q.get('baseline'):
                    # differential query: every behavioural difference counts, but only when the baseline query
                    # (same document, same harness, the distinguishing input class switched off) holds
                    base = table.get((c.name, q['baseline'], False))
                    if base is None or base.status != 'success':
                        chk.extra.setdefault('differential_skipped', []).append({'doc': c.name, 'baseline': base.status if base else 'missing'})
                        continue
                    mine = [d for d in props if re.match(r'C\d\d', d)]
                memsafety = [d for d in other if 'unwinding' not in d and 'BOUND' not in d and 'INCONCLUSIVE' not in d]
                if [d for d in other if d not in memsafety]:
                    chk.infra_problem('%s/%s: inconclusive (bound exceeded): %s' % (c.name, q['name'], [d for d in other if d not in memsafety][:3]))
                    continue
                if not mine and not memsafety:
                    continue   # assertions of another property's mode failed only
                # counterexample -> native replay against the gcc-compiled emitted C
                rt = genc.step_query(gc, fh, q['mode'], kev=KEV, variant=q.get('variant', 1), dvariant=q.get('dvariant'), timeout=timeout, trace=True,
                                     extra_defs=q.get('defs', ()), mem_gb=mem_gb)
                inp = genc.cex_inputs(rt.out, len(c.nodes), len(c.trans), KEV)
                try:
                    nat = genc.native_replay(gc, fh, q['mode'], inp, self.W, c.name + '_' + q['name'], kev=KEV, variant=q.get('variant', 1), dvariant=q.get('dvariant'))
                except InfraError as e:
                    chk.infra_problem('%s/%s: native replay could not be built: %s' % (c.name, q['name'], str(e)[:300])); continue
                chk.replays_native += 1
                reproduced = bool(nat['fails']) or nat['sanitizer']
                what = '%s [%s] %s: %s' % (c.name, c.describe()[:160], q['name'], (nat['fails'] or mine or memsafety)[:3])
                if not reproduced:
                    if memsafety and not mine:
                        chk.extra.setdefault('pointer_model_only_failures', []).append({'doc': c.name, 'failed': memsafety[:4]})
                        chk.infra_problem('%s/%s: CBMC memory-safety failure that no native (ASan/UBSan) run confirms: %s' % (c.name, q['name'], memsafety[:3]))
                    else:
                        chk.infra_problem('SPURIOUS counterexample (does not reproduce on the gcc-compiled emitted C): ' + what)
                    continue
                path = chk.write_replay('%s_%s' % (c.name, q['name']), {
                    'kind': 'emitted-c-step', 'doc': c.name, 'scxml': c.to_xml(), 'mode': q['mode'], 'variant': q.get('variant', 1), 'dvariant': q.get('dvariant'),
                    'kev': KEV, 'inputs': inp, 'native': nat['out'][-1500:], 'failed': nat['fails']})
                yield_v = (what, path)
                chk.violation(what, path)
        chk.extra['documents'] = len(prepared)
        chk.extra['documents_by_kind'] = {k: sum(1 for p in prepared if p[0] == k) for k in ('feature', 'random', 'corpus')}
        chk.extra['queries_without_verdict'] = inconclusive
        if total and inconclusive > 0.25 * total:
            chk.infra_problem('%d of %d queries without verdict: budget too small for this document set' % (inconclusive, total))


def replay_file(path, W):
    r = json.load(open(path))
    c_xml = r['scxml']
    tag = 'replay_' + r['doc']
    sx = os.path.join(W, tag + '.scxml')
    open(sx, 'w').write(c_xml)
    c = chartgen.from_scxml(sx, name=r['doc'])
    # from_scxml drops the labels; regenerate the same skeleton (structure is what matters)
    for n in c.nodes:
        pass
    native_build(['bin/uscxml-transform'])
    gc, fh = genc.prepare(c, W, tag)
    nat = genc.native_replay(gc, fh, r['mode'], r['inputs'], W, tag, kev=r.get('kev', KEV), variant=r.get('variant', 1), dvariant=r.get('dvariant'))
    log(nat['out'])
    return 1 if (nat['fails'] or nat['sanitizer']) else 0
