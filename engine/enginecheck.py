"""Shared driver for the interpreter-engine checks (C02 engine half, C03, C07, C08, C10, C11, C13).

Subject decided by the solver: the real FastMicroStep::step, lowered from LLVM IR, executed by CBMC from
enumerated pre-states (configuration x history x invocations x flags x enabled transition set x queue state)
with the throw pattern of every executable block / invocation symbolic, against the reference model.
Auxiliary (not solver-decided, reported as such): the same harness linked natively against the g++-built
libuscxml runs *every* scenario with pseudo-random throw patterns -- this is the translation validation of the
lowered unit, and the only coverage LargeMicroStep gets (its boost::container::flat_set state could not be
carried by CBMC within budget, see DESIGN.md).
"""
import os, random, json, re
from common import *
import chartgen, genc, engines

BATCH = 1      # scenarios per CBMC run: the symbolic remnants (throw patterns) of one micro step make the next one intractable


def documents(tier, seed, n_random):
    rng = random.Random(seed)
    docs = [('feature', c) for c in chartgen.feature_charts()]
    for i in range(n_random):
        docs.append(('random', chartgen.random_chart(rng, max_states=6 if tier == 'quick' else 8, max_trans=4 if tier == 'quick' else 6, name='erd%d_%d' % (seed, i))))
    return docs


def excluded(chart, prop, engine):
    kf = json.load(open(os.path.join(VERIF, 'known_findings.json')))
    for f in kf.get('findings', []):
        if f.get('property') == prop and f.get('doc_predicate') and f.get('subject', 'emitted-c') in (engine, 'engines'):
            if chartgen.FINDING_PREDICATES[f['doc_predicate']](chart):
                return f['id']
    return None


def run_engines(chk, prop, W, tier, seed, chk_mask, n_random=None, batches_per_doc=None, mode=1, large_native=True, tmo=None):
    native_build(['lib/libuscxml.so'])
    if n_random is None:
        n_random = 2 if tier == 'quick' else 40
    if batches_per_doc is None:
        batches_per_doc = 5 if tier == 'quick' else 120
    tmo = tmo or (240 if tier == 'quick' else 1200)
    docs = documents(tier, seed, n_random)
    rng = random.Random(seed)
    prepared = []

    def prep(d):
        kind, c = d
        out = {}
        for eng in (('fast', 'large') if large_native else ('fast',)):
            fid = excluded(c, prop, eng)
            if fid:
                out[eng] = ('excluded', fid); continue
            try:
                ec, fh, tb = engines.prepare(eng, c, W, '%s_%s' % (c.name, eng))
                out[eng] = ('ok', ec, fh, tb)
            except InfraError as e:
                out[eng] = ('error', str(e)[:300])
        return kind, c, out
    for kind, c, out in pmap(prep, docs):
        prepared.append((kind, c, out))
        for eng, v in out.items():
            if v[0] == 'excluded':
                chk.extra.setdefault('documents_outside_claim_known_finding', []).append({'doc': c.name, 'engine': eng, 'finding': v[1]})
            elif v[0] == 'error':
                chk.extra.setdefault('documents_not_prepared', []).append({'doc': c.name, 'engine': eng, 'why': v[1]})
                if kind == 'feature':
                    chk.infra_problem('feature document %s could not be prepared for %s: %s' % (c.name, eng, v[1]))
    # ---- scenarios, native translation validation (all scenarios), CBMC batches (sampled)
    jobs = []
    tv_total = 0
    for kind, c, out in prepared:
        sc = engines.scenarios(c, random.Random(seed), 100000 if tier == 'thorough' else 600)
        for eng, v in out.items():
            if v[0] != 'ok':
                continue
            _, ec, fh, tb = v
            sch = engines.scenarios_header(sc, os.path.join(W, '%s_%s_scall.h' % (c.name, eng)))
            dv = 1     # one reference for both engines: where LargeMicroStep needs another one, that is a C03 finding
            nat = engines.native_run(eng, W, '%s_%s' % (c.name, eng), fh, tb, sch, variant=1, dvariant=dv, mode=mode, chk=chk_mask, prop_beh=prop)
            tv_total += nat['scenarios'] * 8
            chk.samples.append({'doc': c.name, 'engine': eng, 'kind': 'native run of all scenarios x 8 pseudo-random throw patterns (auxiliary, not solver-decided)',
                                'scenarios': nat['scenarios'], 'passed': nat['ok'], 'shape': c.describe()[:160]}) if len(chk.samples) < 40 else None
            if not nat['ok']:
                fails = sorted(set(f.split(': ', 1)[-1] for f in nat['fails']))
                mine = fails      # only the assertion groups selected by chk_mask are compiled in: every failure belongs to this property
                if mine:
                    path = chk.write_replay('%s_%s_native' % (c.name, eng), {'kind': 'engine-native', 'engine': eng, 'doc': c.name, 'scxml': c.to_xml(), 'mode': mode,
                                                                          'chk': chk_mask, 'dvariant': dv, 'failed': fails[:10], 'native': nat['out'][-1500:]})
                    chk.violation('%s engine, %s [%s]: %s (reproduced on the g++-built libuscxml)' % (eng, c.name, c.describe()[:140], (mine or fails)[:3]), path)
                elif not fails:
                    chk.infra_problem('native harness for %s/%s did not run: %s' % (c.name, eng, nat['out'][-400:]))
            if eng != 'fast':
                continue
            # CBMC batches for the Fast engine
            rest = sc[1:]
            rng.shuffle(rest)
            groups = [[sc[0]]]
            for b in range(1, batches_per_doc):
                g = rest[(b - 1) * BATCH:b * BATCH]
                if g:
                    groups.append(g)
            for b, sub in enumerate(groups):
                bh = engines.scenarios_header(sub, os.path.join(W, '%s_b%d.h' % (c.name, b)))
                jobs.append((c, ec, fh, tb, bh, sub, b, False))
                if b == 0:
                    jobs.append((c, ec, fh, tb, bh, sub, b, True))
    chk.tv_cases += tv_total

    def job(j):
        c, ec, fh, tb, bh, sub, b, wit = j
        defs = ['SCENARIOS="%s"' % bh]
        return engines.step_query(ec, fh, mode, variant=1, dvariant=1, witness=wit, timeout=tmo, chk=chk_mask, prop_beh=prop, extra_defs=defs, unwind=15)
    res = pmap(job, jobs)
    table = {(j[0].name, j[6], j[7]): r for j, r in zip(jobs, res)}
    total = inconclusive = 0
    for j, r in zip(jobs, res):
        c, ec, fh, tb, bh, sub, b, wit = j
        if wit:
            continue
        total += 1
        w = table.get((c.name, b, True))
        chk.query('fast/%s/batch%d' % (c.name, b), r, bound='%d scenarios, %d states, %d transitions' % (len(sub), len(c.nodes), len(c.trans)), witness=w,
                  note=c.describe()[:160])
        if w is not None and w.status != 'failed':
            chk.infra_problem('fast/%s: reachability witness not violated (%s)' % (c.name, w.status))
        if r.status == 'success':
            continue
        if r.status != 'failed':
            inconclusive += 1
            continue
        props = sorted(set(d for n, d in r.failed))
        bound = [d for d in props if 'unwinding' in d or 'BOUND' in d or 'INCONCLUSIVE' in d]
        if bound:
            chk.infra_problem('fast/%s/batch%d: inconclusive: %s' % (c.name, b, bound[:3])); continue
        tagged = [d for d in props if re.match(r'^C\d\d', d)]
        other = [d for d in props if d not in tagged]
        # reproduce natively on exactly this batch
        nat = engines.native_run('fast', W, '%s_fast_b%d' % (c.name, b), fh, tb, bh, variant=1, dvariant=1, mode=mode, chk=chk_mask, prop_beh=prop)
        chk.replays_native += 1
        if not nat['ok'] and nat['fails']:
            path = chk.write_replay('%s_fast_b%d' % (c.name, b), {'kind': 'engine-native', 'engine': 'fast', 'doc': c.name, 'scxml': c.to_xml(), 'mode': mode, 'chk': chk_mask,
                                                                 'dvariant': 1, 'scenarios': sub, 'failed': props[:10], 'native': nat['out'][-1500:]})
            chk.violation('fast engine, %s [%s]: %s' % (c.name, c.describe()[:140], (tagged or other)[:3]), path)
        else:
            chk.infra_problem('SPURIOUS or throw-pattern-specific counterexample (native run of the batch with 8 pseudo-random throw patterns passes): fast/%s/batch%d %s' % (c.name, b, props[:3]))
    chk.extra['engine_documents'] = len(prepared)
    chk.extra['engine_queries_without_verdict'] = inconclusive
    if total and inconclusive > 0.34 * total:
        chk.infra_problem('%d of %d engine queries without verdict within %ds' % (inconclusive, total, tmo))
    # known-finding witnesses for engines (native)
    kf = json.load(open(os.path.join(VERIF, 'known_findings.json')))
    for f in kf.get('findings', []):
        if f.get('property') != prop or f.get('subject') not in ('fast', 'large', 'engines') or 'witness_scxml' not in f:
            continue
        sx = os.path.join(W, 'kf_' + f['id'] + '.scxml'); open(sx, 'w').write(f['witness_scxml'])
        c = chartgen.from_scxml(sx, name='kf_' + f['id'])
        still = False
        for eng in (('fast', 'large') if f['subject'] == 'engines' else (f['subject'],)):
            try:
                ec, fh, tb = engines.prepare(eng, c, W, 'kf_%s_%s' % (f['id'], eng))
                sch = engines.scenarios_header(engines.scenarios(c, random.Random(1), 600), os.path.join(W, 'kf_%s_%s_sc.h' % (f['id'], eng)))
                nat = engines.native_run(eng, W, 'kf_%s_%s' % (f['id'], eng), fh, tb, sch, variant=f.get('variant', 1), dvariant=f.get('dvariant', 1 if eng == 'fast' else 2), mode=f.get('mode', 1), chk=f.get('chk', 63))
                if not nat['ok'] and nat['fails']:
                    still = True
            except InfraError as e:
                chk.infra_problem('known-finding witness %s cannot be run: %s' % (f['id'], str(e)[:200]))
        if still:
            chk.known('%s: %s' % (f['id'], f['what']))
        else:
            chk.extra.setdefault('known_findings_no_longer_reproducing', []).append(f['id'])
    chk.functions += ['uscxml::FastMicroStep::step (FastMicroStep.cpp, lowered from LLVM IR; CBMC)', 'harness/engine_fast.cpp (callbacks, monitor, state installation)',
                      'uscxml::LargeMicroStep::step (native execution only: auxiliary, not solver-decided)']
    chk.assumptions += [
        'engine object rebuilt from the tables the real init() produced for the document (engine_dump, native)',
        'pre-states (configuration, history, invocations, flags, queue state) and the enabled transition set are ENUMERATED per document; the solver quantifies over which executable blocks / invocations throw',
        'boost::dynamic_bitset, std::string and uscxml::Event are replaced by ADT models (models/bitset.c, strmodel.c, event.c); std::vector/list/set are translated as they are with leaf models',
        'allocation from word-typed static pools, blocks never reused (use-after-free not detectable in this unit)',
        'reference = spec/scxml_ref.h with uscxml\'s conflict and done.state relation (variant 1)']
    chk.outside += ['configurations / enabled sets as solver variables (the engines index pointer-rich containers with find_first/find_next results; not tractable symbolically)',
                    'LargeMicroStep under the solver (boost::container::flat_set state)', 'InterpreterImpl above the engine (DOM, factory, plug-ins)', 'threads']


def do_replay(prop, path):
    r = json.load(open(path))
    W = workdir(prop + '_replay')
    native_build(['lib/libuscxml.so'])
    sx = os.path.join(W, 'doc.scxml'); open(sx, 'w').write(r['scxml'])
    c = chartgen.from_scxml(sx, name=r['doc'])
    ec, fh, tb = engines.prepare(r['engine'], c, W, 'rp')
    sc = r.get('scenarios') or engines.scenarios(c, random.Random(1), 100000)
    sch = engines.scenarios_header([tuple(x) for x in sc], os.path.join(W, 'rp_sc.h'))
    nat = engines.native_run(r['engine'], W, 'rp', fh, tb, sch, variant=1, dvariant=r.get('dvariant', 1), mode=r.get('mode', 1), chk=r.get('chk', 63))
    log(nat['out'][-1500:])
    if not nat['ok'] and nat['fails']:
        log('VIOLATION property=%s replay=%s' % (prop, path))
        return 1
    return 0
