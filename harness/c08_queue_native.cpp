// native replay / translation validation for C08(b): all operation sequences of length NOPS on the g++-built BasicEventQueue
#include "uscxml/interpreter/BasicEventQueue.h"
#include <cstdio>
#include <cstdlib>
using namespace uscxml;
int main(int argc, char** argv) {
	int nops = argc > 1 ? atoi(argv[1]) : 4, total = 1, bad = 0;
	for (int i = 0; i < nops; i++) total *= 3;
	BasicEventQueue q;
	for (int seq = 0; seq < total; seq++) {
		unsigned char shadow[16]; int head = 0, tail = 0, code = seq; q.reset();
		for (int k = 0; k < nops; k++) {
			int op = code % 3; code /= 3;
			if (op == 0) { unsigned char tag = (unsigned char)(65 + seq % 20 + k); char n[2] = {(char)tag, 0}; Event e; e.name = n; q.enqueue(e); shadow[tail++] = tag; }
			else if (op == 1) { Event e = q.dequeue(0); int got = e ? (unsigned char)e.name[0] : -1;
				int exp = head < tail ? shadow[head++] : -1;
				if (got != exp) { if (bad < 5) printf("NATIVE-FAIL: sequence %d op %d: dequeued %d expected %d\n", seq, k, got, exp); bad++; } }
			else { q.reset(); head = tail = 0; }
		}
	}
	printf("native: sequences=%d mismatches=%d\n", total, bad);
	return bad ? 1 : 0;
}
