/* C17 driver: the real Promela-datamodel evaluator against C integer semantics.
 *   CBMC build:   -DGENC="<translated evaluator>.c" -DC17_CASE="<case header>"   [-DIR_UF_ARITH] [-DWITNESS]
 *   native build: -DNATIVE -DC17_CASE=...  linked with harness/c17_eval.cpp (g++) and libuscxml: values from argv,
 *                 used for translation validation (same verdict function) and for replaying counterexamples.
 * The case header (engine/pml.py) provides NVARS, the kind of case and the reference:
 *   MODE 1  expression:  ROOT;  ref_eval(v, &val, &strict_fault, &eager_fault, &undef)
 *   MODE 2  statements:  DECL_ROOT, NSTMT, STMT_ROOT[], NREAD, READ_ROOT[];  ref_run(v, vals[], &fault_at, &undef)
 * `undef` marks inputs on which C leaves the reference value undefined (signed overflow, oversized shifts):
 * they are outside the claim.  A strict fault (division/modulo by zero, INT_MIN / -1, index out of range) must be
 * reported as an error event; an eager-only fault sits in an operand that C's short-circuit evaluation skips:
 * the evaluator may either report it or return the short-circuit value. */
#ifdef NATIVE
#include <stdio.h>
#include <stdlib.h>
#include <stdint.h>
typedef uint8_t u8; typedef uint32_t u32;
void pml_build(void); void pml_decl_int(int which, int v); int pml_eval(int root, int* out); int pml_stmnt(int root); int pml_decl(int root);
#define f_pml_build pml_build
#define f_pml_decl_int pml_decl_int
#define f_pml_eval(r, o) pml_eval((r), (int*)(o))
#define f_pml_stmnt pml_stmnt
#define f_pml_decl pml_decl
#define IR_MUL32(a,b) ((u32)((u32)(a)*(u32)(b)))
#define REF_SDIV(a,b) ((a)/(b))
#define REF_SREM(a,b) ((a)%(b))
static int failures;
#define CHECK(c, msg) do { if (!(c)) { failures++; printf("FAIL %s\n", msg); } } while (0)
#else
#include GENC
#include "strmodel.c"
#include "cxx.c"
#include "event.c"
#include "pml.c"
int nondet_int(void);
#define CHECK(c, msg) __CPROVER_assert((c), msg)
#ifdef IR_UF_ARITH
#define REF_SDIV(a,b) ir_uf_sdiv32((a),(b))
#define REF_SREM(a,b) ir_uf_srem32((a),(b))
#else
#define REF_SDIV(a,b) ((a)/(b))
#define REF_SREM(a,b) ((a)%(b))
#endif
#endif
#define I_MAX 2147483647
#define I_MIN (-2147483647 - 1)
#define MUL_REF(a,b) ((int)IR_MUL32((u32)(a), (u32)(b)))

#include C17_CASE

int cex_v[8]; int cex_rc, cex_out, cex_val, cex_strict, cex_eager, cex_step;

int main(int argc, char** argv) {
	int v[NVARS + 1];
	for (int k = 0; k < NVARS; k++) {
#ifdef NATIVE
		v[k] = argc > 1 + k ? atoi(argv[1 + k]) : 0;
#else
		v[k] = nondet_int();
#endif
		cex_v[k] = v[k];
	}
#if MODE == 1
	int val = 0, strict = 0, eager = 0, undef = 0;
	ref_eval(v, &val, &strict, &eager, &undef);
#ifdef NATIVE
	if (undef) { printf("UNDEF\n"); return 0; }
#else
	__CPROVER_assume(!undef);
#endif
	f_pml_build();
	for (int k = 0; k < NVARS; k++) f_pml_decl_int(k, v[k]);
	int out = 0;
	int rc = (int)f_pml_eval(ROOT, (u8*)&out);
	cex_rc = rc; cex_out = out; cex_val = val; cex_strict = strict; cex_eager = eager;
#ifdef NATIVE
	printf("rc=%d out=%d ref=%d strict=%d eager=%d\n", rc, out, val, strict, eager);
#endif
#ifdef WITNESS
	CHECK(0, "WITNESS reached");
#endif
	CHECK(rc != 2, "C17: no foreign exception escapes the evaluator");
	if (strict) CHECK(rc == 1, "C17: faulting operation is reported as an error");
	else if (eager) CHECK(rc == 1 || (rc == 0 && out == val), "C17: value or error for a fault in a skipped operand");
	else {
		CHECK(rc == 0, "C17: well-defined expression evaluates without error");
		CHECK(rc != 0 || out == val, "C17: value equals C integer semantics");
	}
#else
	int vals[NREAD + 1]; int fault_at = -1, undef = 0;
	ref_run(v, vals, &fault_at, &undef);
#ifdef NATIVE
	if (undef) { printf("UNDEF\n"); return 0; }
#else
	__CPROVER_assume(!undef);
#endif
	f_pml_build();
	int rc = (int)f_pml_decl(DECL_ROOT);
	CHECK(rc == 0, "C17: declarations are accepted");
	for (int k = 0; k < NVARS; k++) f_pml_decl_int(k, v[k]);
	int step = -1;
	for (int s = 0; s < NSTMT && rc == 0; s++) { rc = (int)f_pml_stmnt(STMT_ROOT[s]); if (rc != 0) step = s; }
	cex_rc = rc; cex_step = step; cex_strict = fault_at;
#ifdef NATIVE
	printf("rc=%d step=%d fault_at=%d\n", rc, step, fault_at);
#endif
#ifdef WITNESS
	CHECK(0, "WITNESS reached");
#endif
	CHECK(rc != 2, "C17: no foreign exception escapes the evaluator");
	if (fault_at >= 0) CHECK(rc == 1 && step == fault_at, "C17: out-of-range access is reported as an error at the faulting statement");
	else {
		CHECK(rc == 0, "C17: well-defined statements execute without error");
		for (int r = 0; r < NREAD && rc == 0; r++) {
			int out = 0;
			int rr = (int)f_pml_eval(READ_ROOT[r], (u8*)&out);
#ifdef NATIVE
			printf("read%d rc=%d out=%d ref=%d\n", r, rr, out, vals[r]);
#endif
			cex_out = out; cex_val = vals[r];
			CHECK(rr == 0, "C17: reading a written location succeeds");
			CHECK(rr != 0 || out == vals[r], "C17: location reads back the value last written");
		}
	}
#endif
#ifdef NATIVE
	printf(failures ? "VERDICT fail\n" : "VERDICT ok\n");
	return failures ? 1 : 0;
#else
	return 0;
#endif
}
