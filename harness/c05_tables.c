/* C05: the structural tables embedded by the back ends / built by the engines' init() are the relations the
 * recommendation defines.  Tables are constants (TABLES header, extracted on this run from the emitted C text and
 * from the dump of the real FastMicroStep::init); REF's relations are computed from the structural facts; CBMC
 * picks the indices (i, j, t, u) nondeterministically and compares bit by bit. */
#include FACTS_PRE
#include "scxml_ref.h"
#include FACTS
#include TABLES      /* NSUBJ subjects: TB_parent[k][i], TB_type, TB_children, TB_completion, TB_ancestors, TB_tsource, TB_ttarget, TB_ttype, TB_texit, TB_tconf, SMAPk/TMAPk, TB_childmode */
#include <assert.h>
unsigned nondet_uint(void);
unsigned cex_k, cex_i, cex_j, cex_t, cex_u;
static int bit(unsigned m, int i) { return (m >> i) & 1; }
static int static_domain(int t) {         /* transition domain with history targets standing for themselves */
	rset tg = CH.ttgt[t]; int src = CH.tsrc[t];
	if (tg == 0) return -1;
	if (CH.tinternal[t] && r_is_compound(&CH, src)) { int all = 1; for (int s = 0; s < R_NS; s++) if (RHAS(tg, s) && !r_is_desc(&CH, s, src)) all = 0; if (all) return src; }
	int anc = src;
	for (int k = 0; k < R_NS; k++) {
		if (anc == 0) return 0;
		anc = CH.parent[anc];
		if (!(r_is_compound(&CH, anc) || anc == 0)) continue;
		int ok = 1; for (int s = 0; s < R_NS; s++) if (RHAS(tg, s) && !r_is_desc(&CH, s, anc)) ok = 0;
		if (ok) return anc;
	}
	return 0;
}
static rset exit_set(int t) { int d = static_domain(t); if (d < 0) return 0; return r_descendants(&CH, d) & PROPER_MASK; }
static int has_initial_elem(int s) { for (int j = 0; j < R_NS; j++) if (CH.parent[j] == s && j != s && CH.kind[j] == RK_INITIAL) return j; return -1; }
static rset completion(int s) {
	if (r_is_history(&CH, s)) { int p = CH.parent[s]; rset m = 0;
		for (int j = 1; j < R_NS; j++) { if (r_is_history(&CH, j)) continue; if (CH.kind[s] == RK_HIST_DEEP ? r_is_desc(&CH, j, p) : (CH.parent[j] == p)) m |= RBIT(j); } return m; }
	if (r_is_parallel(&CH, s)) return r_children(&CH, s);
	if (r_is_compound(&CH, s)) { int ie = has_initial_elem(s); if (ie >= 0) return RBIT(ie); return CH.init_targets[s]; }
	return 0;
}
int main(void) {
	r_init(&CH);
	unsigned k = nondet_uint(), i = nondet_uint(), j = nondet_uint(), t = nondet_uint(), u = nondet_uint();
	__CPROVER_assume(k < NSUBJ && i < R_NS && j < R_NS && t < (R_NT ? R_NT : 1) && u < (R_NT ? R_NT : 1));
	cex_k = k; cex_i = i; cex_j = j; cex_t = t; cex_u = u;
	int s = TB_smap[k][i], sj = TB_smap[k][j];
#ifdef WITNESS
	assert(0);
#endif
	__CPROVER_assert(TB_smap[k][TB_parent[k][i]] == CH.parent[s], "C05: parent");
	__CPROVER_assert(bit(TB_ancestors[k][i], j) == (int)RHAS(r_ancestors(&CH, s), sj), "C05: ancestor set");
	{ int exp = TB_childmode[k] ? r_is_desc(&CH, sj, s) : (CH.parent[sj] == s && sj != 0);
	  __CPROVER_assert(bit(TB_children[k][i], j) == exp, "C05: children set"); }
	__CPROVER_assert(bit(TB_completion[k][i], j) == (int)RHAS(completion(s), sj), "C05: default completion (initial attribute / <initial> / first child, parallel children, history completion)");
	{ static const unsigned char code[7] = {3, 1, 2, 4, 6, 5, 7};
	  int exp = code[CH.kind[s]]; if (CH.kind[s] == RK_STATE && r_children(&CH, s) != 0) exp = 3; if (CH.kind[s] == RK_SCXML) exp = 3;
	  __CPROVER_assert((TB_type[k][i] & 0x7f) == exp, "C05: state type"); }
	if (R_NT > 0) {
		int rt = TB_tmap[k][t], ru = TB_tmap[k][u];
		__CPROVER_assert(TB_smap[k][TB_tsource[k][t]] == CH.tsrc[rt], "C05: transition source");
		__CPROVER_assert(bit(TB_ttarget[k][t], j) == (int)RHAS(CH.ttgt[rt], sj), "C05: transition target set");
		__CPROVER_assert(((TB_ttype[k][t] & 1) != 0) == (CH.teventless[rt] != 0) && ((TB_ttype[k][t] & 2) != 0) == (CH.ttgt[rt] == 0) && ((TB_ttype[k][t] & 4) != 0) == (CH.tinternal[rt] != 0)
		                 && ((TB_ttype[k][t] & 8) != 0) == (CH.tkind[rt] == RT_HISTORY) && ((TB_ttype[k][t] & 16) != 0) == (CH.tkind[rt] == RT_INITIAL), "C05: transition type flags");
		if (CH.tkind[rt] == RT_NORMAL) {
			/* the engines keep the exit set as an interval of document-order numbers: pseudo-states inside the interval are harmless (never active) */
			if (!TB_childmode[k] || r_is_proper(&CH, sj))
				__CPROVER_assert(bit(TB_texit[k][t], j) == (int)RHAS(exit_set(rt), sj), "C05: exit set = proper descendants of the transition domain");
			if (CH.tkind[ru] == RT_NORMAL && t != u) {
				int a = CH.tsrc[rt], b = CH.tsrc[ru];
				int exp = (exit_set(rt) & exit_set(ru)) != 0 || a == b || r_is_desc(&CH, a, b) || r_is_desc(&CH, b, a);
				__CPROVER_assert(bit(TB_tconf[k][t], u) == exp, "C05: conflict relation (exit sets intersect or sources equal / ancestor-related)");
			}
		}
	}
	return 0;
}
