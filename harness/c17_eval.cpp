// C17 harness (C++ side): the real PromelaDataModel evaluator (evaluateExpr / evaluateStmnt / evaluateDecl /
// getVariable / setVariable / dataToInt / dataToBool, PromelaDataModel.cpp of the current tree) run on ASTs that the
// real parser produced natively (pml_dump -> C17_TABLES header).  This file and PromelaDataModel.cpp are lowered to
// LLVM IR, translated to C by ir2c and driven by harness/c17_main.c with symbolic variable values.
// The same file, compiled by g++ and linked against libuscxml, gives the native side used for translation
// validation and counterexample replay.
#include "uscxml/plugins/datamodel/promela/PromelaDataModel.h"
#include "uscxml/plugins/datamodel/promela/PromelaParser.h"
#include "uscxml/plugins/datamodel/promela/parser/promela.tab.hpp"
#include C17_TABLES   // NNODES, A_type[], A_value[], A_nchild[], A_child[][A_MAXCH]

using namespace uscxml;

struct PmlAccess : public PromelaDataModel {
	PromelaParserNode* nodes[NNODES + 1];
	void build() {
		for (int i = 0; i < NNODES; i++) {
			PromelaParserNode* n = new PromelaParserNode();
			n->type = A_type[i];
			n->value = A_value[i];
			nodes[i] = n;
		}
		for (int i = 0; i < NNODES; i++)
			for (int k = 0; k < A_nchild[i]; k++) {
				PromelaParserNode* c = nodes[A_child[i][k]];
				c->parent = nodes[i];
				nodes[i]->operands.push_back(c);
			}
	}
	void declInt(const char* name, int v) {
		Data variable;
		variable.compound["vis"] = Data("", Data::VERBATIM);
		variable.compound["type"] = Data("int", Data::VERBATIM);
		variable.compound["value"] = Data(v, Data::INTERPRETED);
		_variables.compound[name] = variable;
	}
	// 0: value in *out; 1: error event raised; 2: any other exception
	int evalInt(int root, int* out) {
		try {
			Data d = evaluateExpr(nodes[root]);
			*out = dataToInt(d);
			return 0;
		} catch (Event e) {
			return 1;
		} catch (...) {
			return 2;
		}
	}
	int stmnt(int root) {
		try {
			evaluateStmnt(nodes[root]);
			return 0;
		} catch (Event e) {
			return 1;
		} catch (...) {
			return 2;
		}
	}
	int decl(int root) {
		try {
			evaluateDecl(nodes[root]);
			return 0;
		} catch (Event e) {
			return 1;
		} catch (...) {
			return 2;
		}
	}
};

static PmlAccess* dm;

extern "C" {
	void pml_build(void) { dm = new PmlAccess; dm->build(); }
	void pml_decl_int(int which, int v) { char name[2] = { (char)('a' + which), 0 }; dm->declInt(name, v); }
	int pml_eval(int root, int* out) { return dm->evalInt(root, out); }
	int pml_stmnt(int root) { return dm->stmnt(root); }
	int pml_decl(int root) { return dm->decl(root); }
}
