// Native side of C15: replay of solver counterexamples and translation validation.
#include "uscxml/messages/Data.h"
#include "uscxml/messages/Event.h"
extern "C" {
#include "jsmn.h"
long tv_escape(const char* in, uint64_t n, char* out, uint64_t cap);
long tv_unescape(const char* in, uint64_t n, char* out, uint64_t cap);
}
#include <cstdio>
#include <cstring>
#include <string>
#include <random>
using namespace uscxml;
struct DataAccess : public uscxml::Data { static std::string esc(const std::string& s) { return jsonEscape(s); } static std::string unesc(const std::string& s) { return jsonUnescape(s); } };
static std::string unhex(const char* h) { std::string s; size_t n = strlen(h); for (size_t i = 0; i + 1 < n; i += 2) { unsigned v; sscanf(h + i, "%2x", &v); s.push_back((char)v); } return s; }
static std::string hex(const std::string& s) { char b[4]; std::string o; for (size_t i = 0; i < s.size(); i++) { snprintf(b, 4, "%02x", (unsigned char)s[i]); o += b; } return o; }
static int cmp1(const std::string& s, long& bad) {
	char buf[256];
	std::string e = DataAccess::esc(s), u = DataAccess::unesc(s);
	long l1 = tv_escape(s.data(), s.size(), buf, sizeof buf);
	if (l1 < 0 || std::string(buf, l1) != e) { if (bad < 10) printf("TV-MISMATCH escape in=%s real=%s\n", hex(s).c_str(), hex(e).c_str()); bad++; }
	long l2 = tv_unescape(s.data(), s.size(), buf, sizeof buf);
	if (l2 < 0 || std::string(buf, l2) != u) { if (bad < 10) printf("TV-MISMATCH unescape in=%s real=%s\n", hex(s).c_str(), hex(u).c_str()); bad++; }
	return 0;
}
int main(int argc, char** argv) {
	if (argc >= 3 && !strcmp(argv[1], "esc")) {
		std::string s = unhex(argv[2]);
		std::string e = DataAccess::esc(s), u = DataAccess::unesc(e);
		std::string js = "[\"" + e + "\"]";
		jsmntok_t t[4]; memset(t, 0, sizeof t); jsmn_parser p; jsmn_init(&p);
		int rv = jsmn_parse(&p, js.c_str(), t, 3);
		int tok_ok = rv == 0 && p.toknext == 2 && t[1].type == JSMN_STRING && t[1].start == 2 && t[1].end == (int)(2 + e.size());
		printf("escaped=%s unescaped=%s roundtrip=%d jsmn_ok=%d\n", hex(e).c_str(), hex(u).c_str(), (int)(u == s), tok_ok);
		return 0;
	}
	if (argc >= 3 && !strcmp(argv[1], "tv")) {
		long n = 0, bad = 0; std::mt19937 rng(atoi(argv[2]));
		for (int a = 0; a < 256; a++) { cmp1(std::string(1, (char)a), bad); n++; for (int b = 0; b < 256; b++) { std::string s; s += (char)a; s += (char)b; cmp1(s, bad); n++; } }
		for (int i = 0; i < 20000; i++) { std::string s; int l = 3 + rng() % 8; const char* hot = "\\\"\t\n\r\b\f\v/ub"; for (int k = 0; k < l; k++) s += (rng() & 1) ? hot[rng() % 12] : (char)(rng() & 255); cmp1(s, bad); n++; }
		printf("tv cases=%ld mismatches=%ld\n", n, bad);
		return bad ? 1 : 0;
	}
	return 2;
}
