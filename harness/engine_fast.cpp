// Engine harness (C++ side), lowered to LLVM IR together with the real FastMicroStep.cpp and
// translated to C by ir2c.  It rebuilds the engine object from the constant tables that the real
// init() produced (engine_dump -> ENGINE_TABLES header), installs a symbolic pre-state and calls the
// real FastMicroStep::step().  Every callback forwards to an extern "C" hook implemented in
// harness/engine_main.c, where the comparison with the reference model happens.
#include "uscxml/interpreter/FastMicroStep.h"
#include "uscxml/interpreter/InterpreterMonitor.h"
#include "uscxml/interpreter/Logging.h"
#include ENGINE_TABLES      // NS, NT, ET_* constant arrays

using namespace uscxml;
typedef XERCESC_NS::DOMElement DE;
typedef unsigned long long u64;

extern "C" {
	int h_deq_int(void); int h_deq_ext(void);
	int h_is_matched(u64 descr_addr); int h_is_true(u64 cond_addr);
	int h_process(u64 tag);                 // 0 ok, 1 throws
	int h_invoke(u64 tag); void h_uninvoke(u64 tag);
	void h_done(u64 state_tag); void h_initdata(u64 tag);
	void h_mon(int kind, u64 tag);
}
// fake DOM element identities: (kind << 20) | (index << 4) | sub
#define TAG(kind, idx, sub) ((DE*)(((u64)(kind) << 20) | ((u64)(idx) << 4) | (u64)(sub)))
enum { K_STATE = 1, K_ONENTRY, K_ONEXIT, K_INVOKE, K_DATA, K_TRANS, K_ONTRANS, K_DONEDATA };
enum { M_BEFORE_EVENT = 1, M_BEFORE_MICRO, M_BEFORE_EXIT, M_AFTER_EXIT, M_BEFORE_TRANS, M_AFTER_TRANS, M_BEFORE_ENTER, M_AFTER_ENTER,
       M_AFTER_MICRO, M_STABLE, M_BEFORE_COMPLETION, M_AFTER_COMPLETION, M_ISSUE };

struct Mon : public InterpreterMonitor {
	Mon() : InterpreterMonitor(Logger()) {}
	void beforeProcessingEvent(const std::string&, const Event&) { h_mon(M_BEFORE_EVENT, 0); }
	void beforeMicroStep(const std::string&) { h_mon(M_BEFORE_MICRO, 0); }
	void beforeExitingState(const std::string&, const std::string&, const DE* s) { h_mon(M_BEFORE_EXIT, (u64)s); }
	void afterExitingState(const std::string&, const std::string&, const DE* s) { h_mon(M_AFTER_EXIT, (u64)s); }
	void beforeTakingTransition(const std::string&, const DE* t) { h_mon(M_BEFORE_TRANS, (u64)t); }
	void afterTakingTransition(const std::string&, const DE* t) { h_mon(M_AFTER_TRANS, (u64)t); }
	void beforeEnteringState(const std::string&, const std::string&, const DE* s) { h_mon(M_BEFORE_ENTER, (u64)s); }
	void afterEnteringState(const std::string&, const std::string&, const DE* s) { h_mon(M_AFTER_ENTER, (u64)s); }
	void afterMicroStep(const std::string&) { h_mon(M_AFTER_MICRO, 0); }
	void onStableConfiguration(const std::string&) { h_mon(M_STABLE, 0); }
	void beforeCompletion(const std::string&) { h_mon(M_BEFORE_COMPLETION, 0); }
	void afterCompletion(const std::string&) { h_mon(M_AFTER_COMPLETION, 0); }
	void reportIssue(const std::string&, const InterpreterIssue&) { h_mon(M_ISSUE, 0); }
};

struct CB : public MicroStepCallbacks {
	std::set<InterpreterMonitor*> mons; std::string sid; Data* cache;
	Event dequeueInternal() { Event e; if (h_deq_int()) e.name = "i"; return e; }
	Event dequeueExternal(size_t) { Event e; if (h_deq_ext()) e.name = "x"; return e; }
	bool isMatched(const Event&, const std::string& d) { return h_is_matched((u64)&d) != 0; }
	void raiseDoneEvent(DE* s, DE*) { h_done((u64)s); }
	bool isTrue(const std::string& c) { return h_is_true((u64)&c) != 0; }
	void initData(DE* e) { h_initdata((u64)e); }
	void process(DE* b) { if (h_process((u64)b)) throw 1; }
	void invoke(DE* i) { if (h_invoke((u64)i)) throw 1; }
	void uninvoke(DE* i) { h_uninvoke((u64)i); }
	std::set<InterpreterMonitor*> getMonitors() { return mons; }
	const std::string& getSessionId() { return sid; }
	Logger getLogger() { return Logger(); }
	Data& getCache() { return *cache; }
};

struct uscxml_verif_access {
	static void bits(boost::dynamic_bitset<BITSET_BLOCKTYPE>& b, unsigned n, u64 v) { b.resize(n); for (unsigned i = 0; i < n; i++) b[i] = (v >> i) & 1; }
	static u64 val(boost::dynamic_bitset<BITSET_BLOCKTYPE>& b) { u64 m = 0; for (unsigned i = 0; i < b.size(); i++) if (b[i]) m |= (u64)1 << i; return m; }
	static void build(FastMicroStep& fm) {
		fm._states.resize(NS); fm._transitions.resize(NT); fm._exitSets.resize(NT);
		for (unsigned i = 0; i < NS; i++) {
			FastMicroStep::State* s = new FastMicroStep::State(i);
			s->type = ET_type[i]; s->parent = ET_parent[i];
			bits(s->children, NS, ET_children[i]); bits(s->completion, NS, ET_completion[i]); bits(s->ancestors, NS, ET_ancestors[i]);
			for (unsigned k = 0; k < ET_n_onentry[i]; k++) s->onEntry.push_back(TAG(K_ONENTRY, i, k));
			for (unsigned k = 0; k < ET_n_onexit[i]; k++) s->onExit.push_back(TAG(K_ONEXIT, i, k));
			for (unsigned k = 0; k < ET_n_invoke[i]; k++) s->invoke.push_back(TAG(K_INVOKE, i, k));
			for (unsigned k = 0; k < ET_n_data[i]; k++) s->data.push_back(TAG(K_DATA, i, k));
			s->element = TAG(K_STATE, i, 0);
			if (ET_donedata[i]) s->doneData = TAG(K_DONEDATA, i, 0);
			fm._states[i] = s;
		}
		for (unsigned t = 0; t < NT; t++) {
			FastMicroStep::Transition* tr = new FastMicroStep::Transition(t);
			tr->source = ET_tsource[t]; tr->type = ET_ttype[t];
			bits(tr->target, NS, ET_ttarget[t]); bits(tr->conflicts, NT, ET_tconflicts[t]);
			if (ET_tevent[t]) tr->event = "e";
			if (ET_tcond[t]) tr->cond = "c";
			tr->element = TAG(K_TRANS, t, 0);
			if (ET_tontrans[t]) tr->onTrans = TAG(K_ONTRANS, t, 0);
			fm._exitSets[t] = std::make_pair((uint32_t)ET_texitfirst[t], (uint32_t)ET_texitlast[t]);
			fm._transitions[t] = tr;
		}
		bits(fm._configuration, NS, 0); bits(fm._invocations, NS, 0); bits(fm._history, NS, 0); bits(fm._initializedData, NS, 0);
		bits(fm._exitSet, NS, 0); bits(fm._entrySet, NS, 0); bits(fm._targetSet, NS, 0); bits(fm._tmpStates, NS, 0);
		bits(fm._conflicts, NT, 0); bits(fm._transSet, NT, 0);
		fm._isInitialized = true; fm._isCancelled = false; fm._flags = 0;
		fm._binding = (MicroStepImpl::Binding)ET_binding;
	}
	static void set(FastMicroStep& fm, u64 conf, u64 hist, u64 inv, u64 ini, unsigned flags, int cancelled) {
		for (unsigned i = 0; i < NS; i++) { fm._configuration[i] = (conf >> i) & 1; fm._history[i] = (hist >> i) & 1; fm._invocations[i] = (inv >> i) & 1; fm._initializedData[i] = (ini >> i) & 1; }
		fm._flags = (unsigned char)flags; fm._isCancelled = cancelled != 0;
	}
	static void get(FastMicroStep& fm, u64* out) {
		out[0] = val(fm._configuration); out[1] = val(fm._history); out[2] = val(fm._invocations); out[3] = val(fm._initializedData);
		out[4] = fm._flags; out[5] = fm._isCancelled;
	}
	static u64 descr_addr(FastMicroStep& fm, unsigned t) { return (u64)&fm._transitions[t]->event; }
	static u64 cond_addr(FastMicroStep& fm, unsigned t) { return (u64)&fm._transitions[t]->cond; }
};

static CB* g_cb; static FastMicroStep* g_fm; static Mon* g_mon;
extern "C" {
	void eng_build(int with_monitor) {
		g_cb = new CB(); g_cb->cache = 0;
		if (with_monitor) { g_mon = new Mon(); g_cb->mons.insert(g_mon); }
		g_fm = new FastMicroStep(g_cb);
		uscxml_verif_access::build(*g_fm);
	}
	void eng_set(u64 conf, u64 hist, u64 inv, u64 ini, unsigned flags, int cancelled) { uscxml_verif_access::set(*g_fm, conf, hist, inv, ini, flags, cancelled); }
	void eng_get(u64* out) { uscxml_verif_access::get(*g_fm, out); }
	int eng_step(void) { return (int)g_fm->FastMicroStep::step(0); }
	void eng_cancel(void) { g_fm->FastMicroStep::markAsCancelled(); }
	void eng_reset(void) { g_fm->FastMicroStep::reset(); }
	u64 eng_descr_addr(unsigned t) { return uscxml_verif_access::descr_addr(*g_fm, t); }
	u64 eng_cond_addr(unsigned t) { return uscxml_verif_access::cond_addr(*g_fm, t); }
}
