// Engine harness (C++ side), lowered to LLVM IR together with the real LargeMicroStep.cpp and
// translated to C by ir2c.  It rebuilds the engine object from the constant tables that the real
// init() produced (engine_dump -> ENGINE_TABLES header), installs a symbolic pre-state and calls the
// real LargeMicroStep::step().  Every callback forwards to an extern "C" hook implemented in
// harness/engine_main.c, where the comparison with the reference model happens.
#include "uscxml/interpreter/LargeMicroStep.h"
#include "uscxml/interpreter/InterpreterMonitor.h"
#include "uscxml/interpreter/Logging.h"
#include ENGINE_TABLES      // NS, NT, ET_* constant arrays

using namespace uscxml;
typedef XERCESC_NS::DOMElement DE;
typedef unsigned long long u64;

extern "C" {
	int h_deq_int(void); int h_deq_ext(void);
	int h_is_matched(u64 descr_addr); int h_is_true(u64 cond_addr);
	int h_process(u64 tag);                 // 0 ok, 1 throws
	int h_invoke(u64 tag); void h_uninvoke(u64 tag);
	void h_done(u64 state_tag); void h_initdata(u64 tag);
	void h_mon(int kind, u64 tag);
}
// fake DOM element identities: (kind << 20) | (index << 4) | sub
#define TAG(kind, idx, sub) ((DE*)(((u64)(kind) << 20) | ((u64)(idx) << 4) | (u64)(sub)))
enum { K_STATE = 1, K_ONENTRY, K_ONEXIT, K_INVOKE, K_DATA, K_TRANS, K_ONTRANS, K_DONEDATA };
enum { M_BEFORE_EVENT = 1, M_BEFORE_MICRO, M_BEFORE_EXIT, M_AFTER_EXIT, M_BEFORE_TRANS, M_AFTER_TRANS, M_BEFORE_ENTER, M_AFTER_ENTER,
       M_AFTER_MICRO, M_STABLE, M_BEFORE_COMPLETION, M_AFTER_COMPLETION, M_ISSUE };

struct Mon : public InterpreterMonitor {
	Mon() : InterpreterMonitor(Logger()) {}
	void beforeProcessingEvent(const std::string&, const Event&) { h_mon(M_BEFORE_EVENT, 0); }
	void beforeMicroStep(const std::string&) { h_mon(M_BEFORE_MICRO, 0); }
	void beforeExitingState(const std::string&, const std::string&, const DE* s) { h_mon(M_BEFORE_EXIT, (u64)s); }
	void afterExitingState(const std::string&, const std::string&, const DE* s) { h_mon(M_AFTER_EXIT, (u64)s); }
	void beforeTakingTransition(const std::string&, const DE* t) { h_mon(M_BEFORE_TRANS, (u64)t); }
	void afterTakingTransition(const std::string&, const DE* t) { h_mon(M_AFTER_TRANS, (u64)t); }
	void beforeEnteringState(const std::string&, const std::string&, const DE* s) { h_mon(M_BEFORE_ENTER, (u64)s); }
	void afterEnteringState(const std::string&, const std::string&, const DE* s) { h_mon(M_AFTER_ENTER, (u64)s); }
	void afterMicroStep(const std::string&) { h_mon(M_AFTER_MICRO, 0); }
	void onStableConfiguration(const std::string&) { h_mon(M_STABLE, 0); }
	void beforeCompletion(const std::string&) { h_mon(M_BEFORE_COMPLETION, 0); }
	void afterCompletion(const std::string&) { h_mon(M_AFTER_COMPLETION, 0); }
	void reportIssue(const std::string&, const InterpreterIssue&) { h_mon(M_ISSUE, 0); }
};

struct CB : public MicroStepCallbacks {
	std::set<InterpreterMonitor*> mons; std::string sid; Data* cache;
	Event dequeueInternal() { Event e; if (h_deq_int()) e.name = "i"; return e; }
	Event dequeueExternal(size_t) { Event e; if (h_deq_ext()) e.name = "x"; return e; }
	bool isMatched(const Event&, const std::string& d) { return h_is_matched((u64)&d) != 0; }
	void raiseDoneEvent(DE* s, DE*) { h_done((u64)s); }
	bool isTrue(const std::string& c) { return h_is_true((u64)&c) != 0; }
	void initData(DE* e) { h_initdata((u64)e); }
	void process(DE* b) { if (h_process((u64)b)) throw 1; }
	void invoke(DE* i) { if (h_invoke((u64)i)) throw 1; }
	void uninvoke(DE* i) { h_uninvoke((u64)i); }
	std::set<InterpreterMonitor*> getMonitors() { return mons; }
	const std::string& getSessionId() { return sid; }
	Logger getLogger() { return Logger(); }
	Data& getCache() { return *cache; }
};

struct uscxml_verif_access {
	typedef boost::container::flat_set<LargeMicroStep::State*, LargeMicroStep::StateOrder> sset;
	static void fill(LargeMicroStep& lm, sset& b, u64 v) { b.clear(); for (unsigned i = 0; i < NS; i++) if ((v >> i) & 1) b.insert(lm._states[i]); }
	static u64 val(const sset& b) { u64 m = 0; for (auto s : b) m |= (u64)1 << s->documentOrder; return m; }
	static void build(LargeMicroStep& lm) {
		lm._states.resize(NS); lm._transitions.resize(NT);
		for (unsigned i = 0; i < NS; i++) {
			LargeMicroStep::State* s = new LargeMicroStep::State(i);
			s->type = ET_type[i]; s->postFixOrder = ET_postfix[i];
			for (unsigned k = 0; k < ET_n_onentry[i]; k++) s->onEntry.push_back(TAG(K_ONENTRY, i, k));
			for (unsigned k = 0; k < ET_n_onexit[i]; k++) s->onExit.push_back(TAG(K_ONEXIT, i, k));
			for (unsigned k = 0; k < ET_n_invoke[i]; k++) s->invoke.push_back(TAG(K_INVOKE, i, k));
			for (unsigned k = 0; k < ET_n_data[i]; k++) s->data.push_back(TAG(K_DATA, i, k));
			s->element = TAG(K_STATE, i, 0);
			s->doneData = ET_donedata[i] ? TAG(K_DONEDATA, i, 0) : NULL;
			lm._states[i] = s;
		}
		for (unsigned i = 0; i < NS; i++) {
			LargeMicroStep::State* s = lm._states[i];
			s->parent = i ? lm._states[ET_parent[i]] : NULL;
			for (unsigned j = 0; j < NS; j++) {
				if ((ET_children[i] >> j) & 1) s->children.push_back(lm._states[j]);
				if ((ET_completion[i] >> j) & 1) s->completion.insert(lm._states[j]);
				if ((ET_ancestors[i] >> j) & 1) s->ancestors.insert(lm._states[j]);
			}
		}
		for (unsigned t = 0; t < NT; t++) {
			LargeMicroStep::Transition* tr = new LargeMicroStep::Transition(t);
			tr->source = lm._states[ET_tsource[t]]; tr->type = ET_ttype[t];
			for (unsigned j = 0; j < NS; j++) if ((ET_ttarget[t] >> j) & 1) tr->target.push_back(lm._states[j]);
			if (ET_tevent[t]) tr->event = "e";
			if (ET_tcond[t]) tr->cond = "c";
			tr->element = TAG(K_TRANS, t, 0);
			tr->onTrans = ET_tontrans[t] ? TAG(K_ONTRANS, t, 0) : NULL;
			tr->exitSet = std::make_pair((uint32_t)ET_texitfirst[t], (uint32_t)ET_texitlast[t]);
			if (ET_texitfirst[t] != 0) lm._exitSetCache[t] = tr->exitSet;     /* as the real getExitSet() caches it: the DOM branch stays unreachable */
			lm._transitions[t] = tr;
		}
		for (unsigned i = 0; i < NS; i++) for (unsigned k = 0; k < ET_n_strans[i]; k++) lm._states[i]->transitions.push_back(lm._transitions[ET_strans[i][k]]);
		lm._compatible.resize(NT); lm._conflicting.resize(NT);
		lm._isInitialized = true; lm._isCancelled = false; lm._flags = 0;
		lm._binding = (MicroStepImpl::Binding)ET_binding;
	}
	static void set(LargeMicroStep& lm, u64 conf, u64 hist, u64 inv, u64 ini, unsigned flags, int cancelled) {
		fill(lm, lm._configuration, conf); fill(lm, lm._history, hist); fill(lm, lm._invocations, inv); fill(lm, lm._initializedData, ini);
		lm._configurationPostFix.clear();
		for (unsigned i = 0; i < NS; i++) if ((conf >> i) & 1) lm._configurationPostFix.insert(lm._states[i]);
		lm._flags = (unsigned char)flags; lm._isCancelled = cancelled != 0;
	}
	static void get(LargeMicroStep& lm, u64* out) {
		out[0] = val(lm._configuration); out[1] = val(lm._history); out[2] = val(lm._invocations); out[3] = val(lm._initializedData);
		out[4] = lm._flags; out[5] = lm._isCancelled;
	}
	static u64 descr_addr(LargeMicroStep& lm, unsigned t) { return (u64)&lm._transitions[t]->event; }
	static u64 cond_addr(LargeMicroStep& lm, unsigned t) { return (u64)&lm._transitions[t]->cond; }
};

static CB* g_cb; static LargeMicroStep* g_fm; static Mon* g_mon;
extern "C" {
	void eng_build(int with_monitor) {
		g_cb = new CB(); g_cb->cache = 0;
		if (with_monitor) { g_mon = new Mon(); g_cb->mons.insert(g_mon); }
		g_fm = new LargeMicroStep(g_cb);
		uscxml_verif_access::build(*g_fm);
	}
	void eng_set(u64 conf, u64 hist, u64 inv, u64 ini, unsigned flags, int cancelled) { uscxml_verif_access::set(*g_fm, conf, hist, inv, ini, flags, cancelled); }
	void eng_get(u64* out) { uscxml_verif_access::get(*g_fm, out); }
	int eng_step(void) { return (int)g_fm->LargeMicroStep::step(0); }
	void eng_cancel(void) { g_fm->LargeMicroStep::markAsCancelled(); }
	void eng_reset(void) { g_fm->LargeMicroStep::reset(); }
	u64 eng_descr_addr(unsigned t) { return uscxml_verif_access::descr_addr(*g_fm, t); }
	u64 eng_cond_addr(unsigned t) { return uscxml_verif_access::cond_addr(*g_fm, t); }
}
