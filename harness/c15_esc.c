/* C15(b): Data::jsonEscape / Data::jsonUnescape (Route B) composed with the real jsmn.c (Route A):
 * for every byte string s (all 256 values) of <= EL bytes:
 *   1. jsmn accepts  ["<escape(s)>"]  as an array holding one string token that spans exactly escape(s)
 *      (i.e. the escaped text contains no quote that ends the string early and no escape jsmn rejects);
 *   2. unescape(escape(s)) == s. */
#include GENC
#include "strmodel.c"
#include JSMN_C
#include <assert.h>
#ifndef EL
#define EL 3
#endif
u8 nondet_u8(void); u64 nondet_u64(void);
typedef struct { u64 w[4]; } strobj;
u8 cex_s[EL + 1]; u64 cex_n; int cex_rv; u64 cex_unlen; u8 cex_un[2 * EL + 2]; u8 cex_esc[2 * EL + 2]; u64 cex_esclen;
int main(void) {
	strobj s, esc, un; s_init((u8*)&s);
	u64 n = nondet_u64(); __CPROVER_assume(n <= EL); cex_n = n;
	u8* d = S_P(&s);
	for (u64 i = 0; i <= EL; i++) { u8 c = nondet_u8(); if (i >= n) c = 0;
#ifdef EXCL_V
		__CPROVER_assume(c != 11);
#endif
		d[i] = c; cex_s[i] = c; }
	S_LEN(&s) = n;
	FN_ESC((u8*)&esc, (u8*)&s);
	__CPROVER_assert(!__ir_exc_pending, "no exception escapes jsonEscape");
	u64 el = S_LEN(&esc); cex_esclen = el;
	__CPROVER_assert(el <= 2 * EL, "escaped length at most twice the input");
	__CPROVER_assume(el <= 2 * EL);
	/* ["<esc>"] through the real tokenizer; interior NUL bytes end the C string early exactly as in fromJSON */
	char js[2 * EL + 5]; js[0] = '['; js[1] = '"';
	for (u64 i = 0; i < 2 * EL; i++) { if (i < el) { js[2 + i] = (char)S_P(&esc)[i]; cex_esc[i] = S_P(&esc)[i]; } }
	js[2 + el] = '"'; js[3 + el] = ']'; js[4 + el] = 0;
	int has_nul = 0; for (u64 i = 0; i < EL; i++) if (i < n && cex_s[i] == 0) has_nul = 1;
	jsmntok_t t[4]; memset(t, 0, sizeof t);
	jsmn_parser p; jsmn_init(&p);
	int rv = jsmn_parse(&p, js, t, 3); cex_rv = rv;
	FN_UNESC((u8*)&un, (u8*)&esc);
	cex_unlen = S_LEN(&un);
	for (u64 i = 0; i < 2 * EL + 1; i++) if (i < cex_unlen) cex_un[i] = S_P(&un)[i];
#ifdef WITNESS
	assert(0);
#endif
	__CPROVER_assert(!__ir_exc_pending, "no exception escapes jsonUnescape");
	if (!has_nul) {
		__CPROVER_assert(rv == 0 && p.toknext == 2 && t[1].type == JSMN_STRING && t[1].start == 2 && t[1].end == (int)(2 + el), "C15: jsmn reads back exactly the escaped string");
	}
	int same = S_LEN(&un) == n;
	for (u64 i = 0; i < EL; i++) if (i < n && same && S_P(&un)[i] != cex_s[i]) same = 0;
	__CPROVER_assert(same, "C15: jsonUnescape(jsonEscape(s)) == s");
	return 0;
}
