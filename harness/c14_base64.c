/* C14(a): the real src/uscxml/util/Base64.c (libb64) under CBMC.
 *   MODE 1  base64_decode_block on every input of exactly LEN bytes, output buffer sized as uscxml::base64Decode sizes it
 *           (LEN bytes): memory safety (CBMC's bounds / pointer checks), termination.
 *   MODE 2  round trip as uscxml::base64Encode / base64Decode perform it, for every byte string of exactly LEN bytes:
 *           decode(encode(x)) == x. */
#include BASE64_C
#include <stdlib.h>
#include <assert.h>
#ifndef LEN
#define LEN 3
#endif
char nondet_char(void);
char cex_in[LEN + 1];
int main(void) {
#if MODE == 1
	char* in = (char*)malloc(LEN ? LEN : 1);
	for (int i = 0; i < LEN; i++) { in[i] = nondet_char(); cex_in[i] = in[i]; }
	char* out = (char*)malloc(DEC_SIZE(LEN));             /* as uscxml::base64Decode sizes it (expression extracted from Base64.hpp on this run) */
	base64_decodestate st; base64_init_decodestate(&st);
	int n = base64_decode_block(in, LEN, out, &st);
#ifdef WITNESS
	assert(0);
#endif
	__CPROVER_assert(n >= 0 && n <= LEN, "C14: decoded size within the buffer base64Decode allocates");
#else
	char* in = (char*)malloc(LEN ? LEN : 1);
	for (int i = 0; i < LEN; i++) { in[i] = nondet_char(); cex_in[i] = in[i]; }
	base64_encodestate es; base64_init_encodestate(&es);
	char* code = (char*)malloc(ENC_SIZE);                  /* as uscxml::base64Encode sizes it (extracted from Base64.hpp, evaluated for LEN) */
	int written = base64_encode_block(in, LEN, code, &es);
	written += base64_encode_blockend(code + written, &es);
	written--;                                            /* drop the newline */
	__CPROVER_assert(written >= 0 && written <= ((LEN + 2) / 3) * 4, "C14: encoded length");
	char* out = (char*)malloc(DEC_SIZE(((LEN + 2) / 3) * 4));   /* constant size: memory safety of the decoder is mode 1's subject */
	base64_decodestate ds; base64_init_decodestate(&ds);
	int n = base64_decode_block(code, written, out, &ds);
#ifdef WITNESS
	assert(0);
#endif
	__CPROVER_assert(n == LEN, "C14: decode(encode(x)) has the length of x");
	for (int i = 0; i < LEN; i++) __CPROVER_assert(out[i] == in[i], "C14: decode(encode(x)) == x");
#endif
	return 0;
}
