/* Translation-validation glue for C15(b): generated jsonEscape/jsonUnescape + string/stream ADT. */
#include GENC
#include "strmodel.c"
typedef struct { u64 w[4]; } strobj;
static long call1(void (*fn)(u8*, u8*), const char* in, u64 n, char* out, u64 cap) {
	strobj s, r; s_init((u8*)&s); s_set((u8*)&s, (const u8*)in, n);
	__ir_exc_pending = 0;
	fn((u8*)&r, (u8*)&s);
	if (__ir_exc_pending) return -1;
	u64 l = S_LEN(&r); if (l > cap) return -2;
	memcpy(out, S_P(&r), l);
	free(S_P(&s)); free(S_P(&r));
	return (long)l;
}
long tv_escape(const char* in, u64 n, char* out, u64 cap) { return call1(FN_ESC, in, n, out, cap); }
long tv_unescape(const char* in, u64 n, char* out, u64 cap) { return call1(FN_UNESC, in, n, out, cap); }
