/* Translation-validation glue: exposes the ir2c-generated nameMatch functions (plus the string
 * ADT model) to a native C++ driver, so generated C and the real g++-built functions can be
 * run side by side on concrete inputs. */
#include GENC
#include "strmodel.c"
typedef struct { u64 w[4]; } strobj;
static int call2(u8 (*fn)(u8*, u8*), const char* d, u64 dl, const char* e, u64 el) {
	strobj sd, se; s_init((u8*)&sd); s_init((u8*)&se);
	s_set((u8*)&sd, (const u8*)d, dl); s_set((u8*)&se, (const u8*)e, el);
	__ir_exc_pending = 0;
	int r = fn((u8*)&sd, (u8*)&se) != 0;
	if (__ir_exc_pending) r = -1;
	free(S_P(&sd)); free(S_P(&se));
	return r;
}
int tv_call_a(const char* d, u64 dl, const char* e, u64 el) { return call2(FN_A, d, dl, e, el); }
int tv_call_b(const char* d, u64 dl, const char* e, u64 el) { return call2(FN_B, d, dl, e, el); }
