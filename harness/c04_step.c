/* C04 / C02: the ANSI-C machine emitted by `uscxml-transform -tc` (freshly built transformer, this
 * run's output) under CBMC, one call of uscxml_step() from an arbitrary legal pre-state, with
 * every callback answer symbolic, against the W3C reference model (spec/scxml_ref.h).
 *
 *   -DGENC="doc.c"  emitted C      -DFACTS="doc_facts.h" (chartgen facts + TMAP + MACHINE)
 *   -DMODE=1   behaviour: observable actions, their order, return code and post-state equal REF's (C04)
 *   -DMODE=2   legality : post-configuration legal, history consistent                            (C02)
 *   -DMODE=3   memory safety from *arbitrary* ctx bytes (CBMC's own pointer/bounds checks)         (C04)
 *   -DVARIANT  0 = W3C conflict relation, 1 = transpilers' relation (adds source ancestry)
 *   -DDVARIANT 0 = W3C done.state rule, 1 = uscxml's (all active leaves below a parallel ancestor are final; outermost first)
 *   -DKEV      max number of events one call may dequeue
 *
 * Observable actions are compared as *sets plus canonical order*: the reference is evaluated first
 * (it is a pure function of the pre-state and the symbolic answers); every callback of the
 * implementation then asserts (i) this action is expected, (ii) it has not happened before,
 * (iii) its position key is larger than the previous action's key; at the end every expected
 * action must have been seen.  With a strict total order on expected actions this is sequence equality.
 */
#include <string.h>
#include GENC
#include FACTS_PRE
#include "scxml_ref.h"
#include FACTS
#include <assert.h>

#ifndef KEV
#define KEV 2
#endif
#ifndef VARIANT
#define VARIANT 0
#endif
#ifndef DVARIANT
#define DVARIANT 0
#endif
#define NSB ((R_NS + 7) / 8)

unsigned char nondet_uchar(void); unsigned nondet_uint(void); int nondet_int(void);
#ifdef REPLAY
/* native replay of a solver counterexample against the gcc-compiled emitted C: inputs come from a
 * generated header instead of nondet_*(), assumptions/assertions print instead of constraining */
#include <stdio.h>
#include <stdlib.h>
#include REPLAY
#define IN(nd, rv) (rv)
static int replay_failed = 0;
#define __CPROVER_assume(c) do { if (!(c)) { printf("REPLAY: assumption violated: %s\n", #c); exit(3); } } while (0)
#define __CPROVER_assert(c, msg) do { if (!(c)) { printf("REPLAY-FAIL: %s\n", msg); replay_failed = 1; } } while (0)
#else
#define IN(nd, rv) (nd)
#endif

/* ------------------------------------------------------------------ symbolic environment */
static unsigned char in_matched[KEV + 1][R_NT + 1];   /* [event slot][REF transition] */
static unsigned char in_cond[KEV + 1][R_NT + 1];
static unsigned char in_failN[R_NS][2], in_failX[R_NS][2], in_failT[R_NT + 1];
static int in_iq, in_eq;                               /* pending internal / external events at call time */
/* pre-state (copied out for the counterexample trace) */
unsigned char cex_config[NSB], cex_history[NSB], cex_invocations[NSB], cex_initialized[NSB], cex_flags;
unsigned char cex_matched[KEV + 1][R_NT + 1], cex_cond[KEV + 1][R_NT + 1], cex_failN[R_NS][2], cex_failX[R_NS][2], cex_failT[R_NT + 1];
int cex_iq, cex_eq, cex_ret, cex_refret;
unsigned cex_ref_F, cex_ref_exited, cex_ref_entered, cex_ref_conf, cex_conf1;

/* ------------------------------------------------------------------ expectation (from REF) */
static struct {
	int ret; unsigned char flags1;
	int kind;                       /* 0 nothing, 1 initial step, 2 microstep, 3 finalize */
	rset F; uint8_t ord[R_MAXT];
	ref_step st;
	rset fin_exit;                  /* finalize: states whose onexit runs */
	unsigned char deq[KEV + 2];     /* deq[k]: 0 none, 1 internal, 2 external for slot k (1-based) */
	rset U[KEV + 2], I[KEV + 2];    /* invoke phase at round r: uninvoke / invoke callbacks */
	rset conf1, inv1, ini1; rset hist1[R_MAXS];
} X;
/* what the implementation did */
static unsigned char seenN[R_NS], seenX[R_NS], seenT[R_NT + 1], seenDone[R_NS], seenDeq[KEV + 2], seenScript;
static rset seenU[KEV + 2], seenI[KEV + 2];
static long last_key = -1;
static int a_iq, a_eq, a_slot;
static int evslots[KEV + 2];

#define MB (1000L * (KEV + 2))
#define KEY_DEQ(k) (1000L * (k))
#define KEY_INV(r, s, un) (1000L * (r) + 100 + 2 * (s) + ((un) ? 0 : 1))
#define KEY_X(s, sub) (MB + (long)(R_NS - 1 - (s)) * 8 + (sub))
#define KEY_T(t, e) (MB + 8L * R_NS + (long)X.ord[t] * 2 + (e))
#define KEY_N(s, sub) (MB + 10L * R_NS + (long)(s) * 16 + (sub))

static void at_key(long key) {
	__CPROVER_assert(key > last_key, "C04: observable actions happen in the order the reference prescribes (exits in reverse document order, then transition content in selection order, then entries in document order: onentry, initial content, history content, done events)");
	last_key = key;
}
static int parse_num(const char* s) { int v = 0; while (*s >= '0' && *s <= '9') { v = v * 10 + (*s - '0'); s++; } return v; }
static const char* skip_num(const char* s) { while (*s >= '0' && *s <= '9') s++; return s; }

/* ------------------------------------------------------------------ implementation side: callbacks */
static void* cb_deq_int(const uscxml_ctx* ctx) {
	if (a_iq > 0 && a_slot < KEV) {
		a_iq--; a_slot++;
#if MODE == 1
		__CPROVER_assert(X.deq[a_slot] == 1, "C04: an internal event is dequeued exactly when the reference does");
		at_key(KEY_DEQ(a_slot)); seenDeq[a_slot]++;
#endif
		return &evslots[a_slot];
	}
	return NULL;
}
static void* cb_deq_ext(const uscxml_ctx* ctx) {
	if (a_eq > 0 && a_slot < KEV) {
		a_eq--; a_slot++;
#if MODE == 1
		__CPROVER_assert(X.deq[a_slot] == 2, "C04: an external event is dequeued exactly when the reference does (internal queue empty, no eventless transition enabled)");
		at_key(KEY_DEQ(a_slot)); seenDeq[a_slot]++;
#endif
		return &evslots[a_slot];
	}
	return NULL;
}
static int cb_is_matched(const uscxml_ctx* ctx, const uscxml_transition* t, const void* e) {
	int ti = (int)(t - ctx->machine->transitions);
	int slot = (int)((const int*)e - evslots);
	return in_matched[slot][TMAP[ti]];
}
static int cb_is_true(const uscxml_ctx* ctx, const char* expr) { return in_cond[a_slot][parse_num(expr + 1)]; }
static int cb_raise_done(const uscxml_ctx* ctx, const uscxml_state* s, const uscxml_elem_donedata* d) {
	int p = SMAP[(int)(s - ctx->machine->states)];
	a_iq++;
#if MODE == 1
	__CPROVER_assert(X.kind == 1 || X.kind == 2, "C04: done event only in a micro step");
	__CPROVER_assert(seenDone[p] < X.st.done[p], "C04: done.state event raised that the reference does not raise (or raised twice)");
	int f = X.st.done_at[p];
	if (seenDone[p] == 0) at_key(KEY_N(f, X.st.done_key[p]));
	seenDone[p]++;
#endif
	return USCXML_ERR_OK;
}
static int cb_log(const uscxml_ctx* ctx, const char* label, const char* expr) {
	/* labels: N<s>.<b>.<e>  X<s>.<b>.<e>  T<t>.<e> */
	char k = label[0]; int id = parse_num(label + 1); const char* p = skip_num(label + 1) + 1;
	if (k == 'T') {
		int e = parse_num(p);
#if MODE == 1
		__CPROVER_assert(!((seenT[id] >> e) & 1), "C04: transition content executed twice");
		seenT[id] |= (unsigned char)(1 << e);
		if (CH.tkind[id] == RT_NORMAL) { __CPROVER_assert(X.kind == 2 && RHAS(X.F, id), "C04: content of a transition executed that is not in the optimal transition set"); at_key(KEY_T(id, e)); }
		else if (CH.tkind[id] == RT_INITIAL) { int st = CH.parent[CH.tsrc[id]]; __CPROVER_assert((X.kind == 1 || X.kind == 2) && RHAS(X.st.default_entry, st), "C04: <initial> transition content executed although its state is not entered by default"); at_key(KEY_N(st, 4 + e)); }
		else { int st = CH.parent[CH.tsrc[id]]; __CPROVER_assert((X.kind == 1 || X.kind == 2) && X.st.hist_content[st] == id, "C04: history default content executed although the reference does not"); at_key(KEY_N(st, 6 + e)); }
#endif
		return (e == 0 && in_failT[id]) ? USCXML_ERR_EXEC_CONTENT : USCXML_ERR_OK;
	}
	int b = parse_num(p); int e = parse_num(skip_num(p) + 1);
#if MODE == 1
	if (k == 'N') {
		__CPROVER_assert((X.kind == 1 || X.kind == 2) && RHAS(X.st.entered, id), "C04: onentry handler of a state the reference does not enter");
		__CPROVER_assert(!((seenN[id] >> (b * 2 + e)) & 1), "C04: onentry element executed twice");
		seenN[id] |= (unsigned char)(1 << (b * 2 + e)); at_key(KEY_N(id, b * 2 + e));
	} else {
		__CPROVER_assert((X.kind == 2 && RHAS(X.st.exited, id)) || (X.kind == 3 && RHAS(X.fin_exit, id)), "C04: onexit handler of a state the reference does not exit");
		__CPROVER_assert(!((seenX[id] >> (b * 2 + e)) & 1), "C04: onexit element executed twice");
		seenX[id] |= (unsigned char)(1 << (b * 2 + e)); at_key(KEY_X(id, b * 2 + e));
	}
#endif
	if (e == 0 && (k == 'N' ? in_failN[id][b] : in_failX[id][b])) return USCXML_ERR_EXEC_CONTENT;
	return USCXML_ERR_OK;
}
static int cb_invoke(const uscxml_ctx* ctx, const uscxml_state* s, const uscxml_elem_invoke* inv, unsigned char uninvoke) {
	int i = SMAP[(int)(s - ctx->machine->states)];
#if MODE == 1
	if (X.kind == 3) { __CPROVER_assert(uninvoke && RHAS(X.U[0], i) && !RHAS(seenU[0], i), "C04: uninvoke at finalisation as the reference"); seenU[0] |= RBIT(i); at_key(KEY_X(i, 7)); }
	else if (uninvoke) { __CPROVER_assert(RHAS(X.U[a_slot], i) && !RHAS(seenU[a_slot], i), "C04: uninvoke exactly when the reference cancels the invocation"); seenU[a_slot] |= RBIT(i); at_key(KEY_INV(a_slot, i, 1)); }
	else { __CPROVER_assert(RHAS(X.I[a_slot], i) && !RHAS(seenI[a_slot], i), "C04: invoke exactly when the reference starts the invocation"); seenI[a_slot] |= RBIT(i); at_key(KEY_INV(a_slot, i, 0)); }
#endif
	return USCXML_ERR_OK;
}

/* ------------------------------------------------------------------ helpers */
/* implementation bit i (uscxml numbers pseudo-states first among siblings) -> reference state SMAP[i] */
static rset bytes2set(const unsigned char* b) { rset m = 0; for (int i = 0; i < R_NS; i++) if ((b[i >> 3] >> (i & 7)) & 1) m |= RBIT(SMAP[i]); return m; }
static rset hist_domain(int h) { int p = CH.parent[h]; return CH.kind[h] == RK_HIST_DEEP ? (r_descendants(&CH, p) & PROPER_MASK) : r_children(&CH, p); }
/* "H is what recording at the exit of p produces": a legal configuration of p's subtree without p */
static int legal_below(int p, rset H, int deep) {
	if (H == 0) return 1;
	if ((H & ~r_descendants(&CH, p)) != 0) return 0;
	if (!deep) { rset ch = r_children(&CH, p); if (H & ~ch) return 0; if (r_is_parallel(&CH, p)) return H == ch; return (H & (H - 1)) == 0; }
	for (int s = 0; s < R_NS; s++) {
		int act = (s == p) || RHAS(H, s);
		if (!act) continue;
		if (s != p) { if (!r_is_proper(&CH, s)) return 0; int q = CH.parent[s]; if (q != p && !RHAS(H, q)) return 0; }
		rset ch = r_children(&CH, s);
		if (r_is_parallel(&CH, s)) { if ((H & ch) != ch) return 0; }
		else if (ch) { rset a = H & ch; if (a == 0 || (a & (a - 1))) return 0; }
	}
	return 1;
}
static rset w3c_hist(int h, rset implhist) {
	rset H = implhist & hist_domain(h);
	if (CH.kind[h] == RK_HIST_DEEP) { rset A = 0; for (int s = 0; s < R_NS; s++) if (RHAS(H, s) && r_is_atomic(&CH, s)) A |= RBIT(s); H = A; }
	return H;
}

/* ------------------------------------------------------------------ reference driver: mirrors the
 * call structure of uscxml_step (what one call covers), Appendix D inside */
static void reference(unsigned char flags0, rset conf, rset hist0, rset inv, rset ini) {
	rset hist[R_MAXS]; for (int h = 0; h < R_MAXS; h++) hist[h] = 0;
	for (int h = 0; h < R_NS; h++) if (r_is_history(&CH, h)) hist[h] = w3c_hist(h, hist0);
	int b_iq = in_iq, b_eq = in_eq, b_slot = 0;
	unsigned char bf = flags0;
	X.ret = -1; X.kind = 0; X.F = 0; X.fin_exit = 0;
	for (int k = 0; k < KEV + 2; k++) { X.deq[k] = 0; X.U[k] = 0; X.I[k] = 0; }
	X.st.exited = 0; X.st.entered = 0; X.st.default_entry = 0; X.st.topfinal = 0; X.st.reenter = 0;
	for (int s = 0; s < R_MAXS; s++) { X.st.hist_content[s] = -1; X.st.done[s] = 0; X.st.done_at[s] = 0; X.st.done_key[s] = 0; }
	if (bf & 0x10) X.ret = USCXML_ERR_DONE;
	else if (bf & 0x04) {
		X.kind = 3; X.fin_exit = conf;
		for (int s = 0; s < R_NS; s++) if (RHAS(inv, s)) { if (CH_invoke[s]) X.U[0] |= RBIT(s); inv &= ~RBIT(s); }
		bf |= 0x10; X.ret = USCXML_ERR_DONE;
	} else if (bf == 0) {
		X.kind = 1;
		r_initial_step(&CH, &conf, hist, &X.st, DVARIANT);
		ini |= X.st.entered; bf = 3; if (X.st.topfinal) bf |= 4;
		X.ret = USCXML_ERR_OK;
	} else {
		int spont = bf & 1;
		for (int round = 0; round <= KEV + 2 && X.ret < 0; round++) {
			rset en = 0, F;
			if (spont) {
				for (int t = 0; t < R_NT; t++) if (CH.teventless[t] && (!CH_tcond[t] || in_cond[0][t])) en |= RBIT(t);
				F = r_select(&CH, conf, en, hist, VARIANT, X.ord);
				if (F == 0) { spont = 0; continue; }
			} else {
				if (b_iq > 0 && b_slot < KEV) { b_iq--; b_slot++; X.deq[b_slot] = 1; }
				else {
					/* macrostep is over: invocations */
					for (int s = 0; s < R_NS; s++) {
						if (!RHAS(conf, s) && RHAS(inv, s)) { if (CH_invoke[s]) X.U[b_slot] |= RBIT(s); inv &= ~RBIT(s); }
						if (RHAS(conf, s) && !RHAS(inv, s)) { if (CH_invoke[s]) X.I[b_slot] |= RBIT(s); inv |= RBIT(s); }
					}
					if (b_eq > 0 && b_slot < KEV) { b_eq--; b_slot++; X.deq[b_slot] = 2; }
					else { X.ret = USCXML_ERR_IDLE; break; }
				}
				for (int t = 0; t < R_NT; t++) if (!CH.teventless[t] && in_matched[b_slot][t] && (!CH_tcond[t] || in_cond[b_slot][t])) en |= RBIT(t);
				F = r_select(&CH, conf, en, hist, VARIANT, X.ord);
				if (F == 0) continue;
			}
			X.kind = 2; X.F = F;
			r_microstep(&CH, F, &conf, hist, &X.st, DVARIANT);
			ini |= X.st.entered; spont = 1;
			if (X.st.topfinal) bf |= 4;
			X.ret = USCXML_ERR_OK;
		}
		bf = (unsigned char)((bf & ~1) | (spont ? 1 : 0));
	}
	X.flags1 = bf; X.conf1 = conf; X.inv1 = inv; X.ini1 = ini;
	for (int h = 0; h < R_MAXS; h++) X.hist1[h] = hist[h];
}

int main(void) {
	uscxml_ctx ctx;
	r_init(&CH);
	memset(&ctx, 0, sizeof ctx);
	ctx.machine = &MACHINE;
	ctx.dequeue_internal = cb_deq_int; ctx.dequeue_external = cb_deq_ext; ctx.is_matched = cb_is_matched; ctx.is_true = cb_is_true;
	ctx.raise_done_event = cb_raise_done; ctx.exec_content_log = cb_log; ctx.invoke = cb_invoke;

	/* ---------------- symbolic inputs */
	for (int k = 0; k <= KEV; k++) for (int t = 0; t < R_NT; t++) { in_matched[k][t] = IN(nondet_uchar(), rv_matched[k][t]) & 1; in_cond[k][t] = IN(nondet_uchar(), rv_cond[k][t]) & 1; cex_matched[k][t] = in_matched[k][t]; cex_cond[k][t] = in_cond[k][t]; }
	for (int s = 0; s < R_NS; s++) for (int b = 0; b < 2; b++) { in_failN[s][b] = IN(nondet_uchar(), rv_failN[s][b]) & 1; in_failX[s][b] = IN(nondet_uchar(), rv_failX[s][b]) & 1; cex_failN[s][b] = in_failN[s][b]; cex_failX[s][b] = in_failX[s][b]; }
	for (int t = 0; t < R_NT; t++) { in_failT[t] = IN(nondet_uchar(), rv_failT[t]) & 1; cex_failT[t] = in_failT[t]; }
	in_iq = IN(nondet_int(), rv_iq); in_eq = IN(nondet_int(), rv_eq);
	__CPROVER_assume(in_iq >= 0 && in_iq <= KEV && in_eq >= 0 && in_eq <= KEV);
	cex_iq = in_iq; cex_eq = in_eq;

	/* ---------------- symbolic pre-state */
	for (int i = 0; i < NSB; i++) { ctx.config[i] = IN(nondet_uchar(), rv_config[i]); ctx.history[i] = IN(nondet_uchar(), rv_history[i]); ctx.invocations[i] = IN(nondet_uchar(), rv_invocations[i]); ctx.initialized_data[i] = IN(nondet_uchar(), rv_initialized[i]); }
	ctx.flags = IN(nondet_uchar(), rv_flags);
#if MODE != 3
	{
		unsigned char f = ctx.flags;
		__CPROVER_assume(f == 0 || f == 2 || f == 3 || f == 6 || f == 7 || f == 0x12 || f == 0x13 || f == 0x16 || f == 0x17);
		rset conf = bytes2set(ctx.config), hist = bytes2set(ctx.history), inv = bytes2set(ctx.invocations), ini = bytes2set(ctx.initialized_data);
		for (int i = 0; i < NSB; i++) {       /* no stray bits above the last state */
			unsigned char hi = (i == NSB - 1 && (R_NS & 7)) ? (unsigned char)(0xff << (R_NS & 7)) : 0;
			__CPROVER_assume(!(ctx.config[i] & hi) && !(ctx.history[i] & hi) && !(ctx.invocations[i] & hi) && !(ctx.initialized_data[i] & hi));
		}
		if (f == 0) __CPROVER_assume(conf == 0 && hist == 0 && inv == 0 && ini == 0);
		else {
			__CPROVER_assume(r_legal(&CH, conf));
			__CPROVER_assume((hist & ~PROPER_MASK) == 0 && (inv & ~PROPER_MASK) == 0 && (ini & ~PROPER_MASK) == 0);
			__CPROVER_assume((conf & ~ini) == 0);                 /* an active state has had its data initialised */
			rset dom = 0;
			for (int h = 0; h < R_NS; h++) if (r_is_history(&CH, h)) { dom |= hist_domain(h); __CPROVER_assume(legal_below(CH.parent[h], hist & hist_domain(h), CH.kind[h] == RK_HIST_DEEP)); }
			__CPROVER_assume((hist & ~dom) == 0);                 /* history bits only inside some history's domain */
			if (f & 4) { int tf = 0; for (int s = 0; s < R_NS; s++) if (RHAS(conf, s) && CH.kind[s] == RK_FINAL && CH.parent[s] == 0) tf = 1; __CPROVER_assume(tf); }
		}
	}
#endif
	for (int i = 0; i < NSB; i++) { cex_config[i] = ctx.config[i]; cex_history[i] = ctx.history[i]; cex_invocations[i] = ctx.invocations[i]; cex_initialized[i] = ctx.initialized_data[i]; }
	cex_flags = ctx.flags;
	rset conf0 = bytes2set(ctx.config), hist0 = bytes2set(ctx.history), inv0 = bytes2set(ctx.invocations), ini0 = bytes2set(ctx.initialized_data);
	unsigned char flags0 = ctx.flags;

#if MODE == 1
	reference(flags0, conf0, hist0, inv0, ini0);
	cex_refret = X.ret; cex_ref_F = X.F; cex_ref_exited = X.st.exited; cex_ref_entered = X.st.entered; cex_ref_conf = X.conf1;
	/* Appendix D is ill-defined when it "enters" a state that was never exited: outside the comparison */
	__CPROVER_assume(!X.st.reenter);
	__CPROVER_assume(X.ret >= 0);            /* the reference ran out of its event budget: outside the bound */
#endif

	/* ---------------- run the implementation */
	a_iq = in_iq; a_eq = in_eq; a_slot = 0;
	int ret = uscxml_step(&ctx);
	cex_ret = ret;
#ifdef WITNESS
	assert(0);
#endif
#if MODE == 3
	return 0;   /* only CBMC's built-in memory-safety assertions */
#else
	rset conf1 = bytes2set(ctx.config), hist1 = bytes2set(ctx.history), inv1 = bytes2set(ctx.invocations), ini1 = bytes2set(ctx.initialized_data);
	cex_conf1 = conf1;
#if MODE == 2
	if (!(flags0 & 0x10)) {
		__CPROVER_assert(r_legal(&CH, conf1), "C02: configuration after the step is legal");
		for (int h = 0; h < R_NS; h++) if (r_is_history(&CH, h))
			__CPROVER_assert(legal_below(CH.parent[h], hist1 & hist_domain(h), CH.kind[h] == RK_HIST_DEEP), "C02: remembered history names states that were simultaneously active below the history's parent");
	}
#ifdef REPLAY
	printf("REPLAY: pre conf=0x%x hist=0x%x flags=0x%x iq=%d eq=%d | impl: ret=%d conf'=0x%x hist'=0x%x flags'=0x%x\n", conf0, hist0, flags0, in_iq, in_eq, ret, conf1, hist1, ctx.flags);
	return replay_failed;
#endif
	return 0;
#else
	/* ---------------- completeness: everything the reference does, the implementation did */
	__CPROVER_assert(ret == X.ret, "C04: return code of uscxml_step equals the reference");
	for (int k = 1; k <= KEV; k++) __CPROVER_assert(seenDeq[k] == (X.deq[k] != 0), "C04: every event the reference dequeues is dequeued");
	for (int r = 0; r <= KEV; r++) __CPROVER_assert(seenU[r] == X.U[r] && seenI[r] == X.I[r], "C04: every invoke/uninvoke of the reference happened");
	for (int s = 0; s < R_NS; s++) {
		unsigned char expN = 0, expX = 0;
		if ((X.kind == 1 || X.kind == 2) && RHAS(X.st.entered, s)) for (int b = 0; b < CH_n_onentry[s] && b < 2; b++) { expN |= (unsigned char)(1 << (b * 2)); if (!in_failN[s][b]) expN |= (unsigned char)(1 << (b * 2 + 1)); }
		if ((X.kind == 2 && RHAS(X.st.exited, s)) || (X.kind == 3 && RHAS(X.fin_exit, s))) for (int b = 0; b < CH_n_onexit[s] && b < 2; b++) { expX |= (unsigned char)(1 << (b * 2)); if (!in_failX[s][b]) expX |= (unsigned char)(1 << (b * 2 + 1)); }
		__CPROVER_assert(seenN[s] == expN, "C04: exactly the onentry elements of the entered states ran (a failing element skips only the rest of its block)");
		__CPROVER_assert(seenX[s] == expX, "C04: exactly the onexit elements of the exited states ran (a failing element skips only the rest of its block)");
		__CPROVER_assert(seenDone[s] == ((X.kind == 1 || X.kind == 2) ? X.st.done[s] : 0), "C04: exactly the done.state events of the reference were raised");
	}
	for (int t = 0; t < R_NT; t++) {
		unsigned char exp = 0; int on = 0;
		if (CH.tkind[t] == RT_NORMAL) on = X.kind == 2 && RHAS(X.F, t);
		else if (CH.tkind[t] == RT_INITIAL) on = (X.kind == 1 || X.kind == 2) && RHAS(X.st.default_entry, CH.parent[CH.tsrc[t]]);
		else on = (X.kind == 1 || X.kind == 2) && X.st.hist_content[CH.parent[CH.tsrc[t]]] == t;
		if (on && CH_tcontent[t]) { exp = 1; if (!in_failT[t]) exp |= 2; }
		__CPROVER_assert(seenT[t] == exp, "C04: exactly the transition content of the reference ran");
	}
	if (!(flags0 & 0x14)) {
		__CPROVER_assert(conf1 == X.conf1, "C04: configuration after the step equals the reference");
		for (int h = 0; h < R_NS; h++) if (r_is_history(&CH, h))
			__CPROVER_assert(w3c_hist(h, hist1) == X.hist1[h], "C04: remembered history equals the reference");
		__CPROVER_assert(ini1 == X.ini1, "C04: initialised-data set equals the reference");
	}
	__CPROVER_assert(inv1 == X.inv1, "C04: invocation bookkeeping equals the reference");
	__CPROVER_assert(ctx.flags == X.flags1, "C04: life-cycle flags equal the reference");
#ifdef REPLAY
	printf("REPLAY: pre conf=0x%x hist=0x%x flags=0x%x iq=%d eq=%d | ref: kind=%d ret=%d F=0x%x exited=0x%x entered=0x%x conf'=0x%x flags'=0x%x | impl: ret=%d conf'=0x%x flags'=0x%x\n",
	       conf0, hist0, flags0, in_iq, in_eq, X.kind, X.ret, X.F, X.st.exited, X.st.entered, X.conf1, X.flags1, ret, conf1, ctx.flags);
	return replay_failed;
#endif
	return 0;
#endif
#endif
}
