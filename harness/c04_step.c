/* C04 / C02: the ANSI-C machine emitted by `uscxml-transform -tc` (freshly built transformer, this
 * run's output) under CBMC, one call of uscxml_step() from an arbitrary legal pre-state, with
 * every callback answer symbolic, against the W3C reference model (spec/scxml_ref.h).
 *
 *   -DGENC="doc.c"  emitted C      -DFACTS="doc_facts.h" (chartgen facts + TMAP + MACHINE)
 *   -DMODE=1   behaviour: observable actions, their order, return code and post-state equal REF's (C04)
 *   -DMODE=2   legality : post-configuration legal, history consistent                            (C02)
 *   -DMODE=3   memory safety from *arbitrary* ctx bytes (CBMC's own pointer/bounds checks)         (C04)
 *   -DVARIANT  0 = W3C conflict relation, 1 = transpilers' relation (adds source ancestry)
 *   -DDVARIANT 0 = W3C done.state rule, 1 = uscxml's (all active leaves below a parallel ancestor are final; outermost first)
 *   -DKEV      max number of events one call may dequeue
 *
 * Observable actions are compared as *sets plus canonical order*: the reference is evaluated first
 * (it is a pure function of the pre-state and the symbolic answers); every callback of the
 * implementation then asserts (i) this action is expected, (ii) it has not happened before,
 * (iii) its position key is larger than the previous action's key; at the end every expected
 * action must have been seen.  With a strict total order on expected actions this is sequence equality.
 */
#include <string.h>
#include GENC
#include FACTS_PRE
#include "scxml_ref.h"
#include FACTS
#include <assert.h>

#ifndef KEV
#define KEV 2
#endif
#ifndef VARIANT
#define VARIANT 0
#endif
#ifndef DVARIANT
#define DVARIANT 0
#endif
#define NSB ((R_NS + 7) / 8)

unsigned char nondet_uchar(void); unsigned nondet_uint(void); int nondet_int(void);
#ifdef REPLAY
/* native replay of a solver counterexample against the gcc-compiled emitted C: inputs come from a
 * generated header instead of nondet_*(), assumptions/assertions print instead of constraining */
#include <stdio.h>
#include <stdlib.h>
#include REPLAY
#define IN(nd, rv) (rv)
static int replay_failed = 0;
#define __CPROVER_assume(c) do { if (!(c)) { printf("REPLAY: assumption violated: %s\n", #c); exit(3); } } while (0)
#define __CPROVER_assert(c, msg) do { if (!(c)) { printf("REPLAY-FAIL: %s\n", msg); replay_failed = 1; } } while (0)
#else
#define IN(nd, rv) (nd)
#endif

#define INV_INTERLEAVED 1   /* the emitted C cancels and starts invocations in one pass over the states */
#include "expect.h"
/* pre-state and inputs, copied out for the counterexample trace */
unsigned char cex_config[NSB], cex_history[NSB], cex_invocations[NSB], cex_initialized[NSB], cex_flags;
unsigned char cex_matched[KEV + 1][R_NT + 1], cex_cond[KEV + 1][R_NT + 1], cex_failN[R_NS][2], cex_failX[R_NS][2], cex_failT[R_NT + 1];
int cex_iq, cex_eq, cex_ret, cex_refret;
unsigned cex_ref_F, cex_ref_exited, cex_ref_entered, cex_ref_conf, cex_conf1;
static int evslots[KEV + 2];
static int parse_num(const char* s) { int v = 0; while (*s >= '0' && *s <= '9') { v = v * 10 + (*s - '0'); s++; } return v; }
static const char* skip_num(const char* s) { while (*s >= '0' && *s <= '9') s++; return s; }

/* ------------------------------------------------------------------ implementation side: callbacks */
static void* cb_deq_int(const uscxml_ctx* ctx) {
#if MODE == 1
	return obs_deq(1) ? &evslots[a_slot] : NULL;
#else
	if (a_iq > 0 && a_slot < KEV) { a_iq--; a_slot++; return &evslots[a_slot]; }
	return NULL;
#endif
}
static void* cb_deq_ext(const uscxml_ctx* ctx) {
#if MODE == 1
	return obs_deq(2) ? &evslots[a_slot] : NULL;
#else
	if (a_eq > 0 && a_slot < KEV) { a_eq--; a_slot++; return &evslots[a_slot]; }
	return NULL;
#endif
}
static int cb_is_matched(const uscxml_ctx* ctx, const uscxml_transition* t, const void* e) {
	int ti = (int)(t - ctx->machine->transitions);
	int slot = (int)((const int*)e - evslots);
	return in_matched[slot][TMAP[ti]];
}
static int cb_is_true(const uscxml_ctx* ctx, const char* expr) { return in_cond[a_slot][parse_num(expr + 1)]; }
static int cb_raise_done(const uscxml_ctx* ctx, const uscxml_state* s, const uscxml_elem_donedata* d) {
	int p = SMAP[(int)(s - ctx->machine->states)];
#if MODE == 1
	obs_done(p);
#else
	a_iq++;
#endif
	return USCXML_ERR_OK;
}
static int cb_log(const uscxml_ctx* ctx, const char* label, const char* expr) {
	/* labels: N<s>.<b>.<e>  X<s>.<b>.<e>  T<t>.<e> */
	char k = label[0]; int id = parse_num(label + 1); const char* p = skip_num(label + 1) + 1;
	if (k == 'T') {
		int e = parse_num(p);
#if MODE == 1
		obs_trans_content(id, e);
#endif
		return (e == 0 && in_failT[id]) ? USCXML_ERR_EXEC_CONTENT : USCXML_ERR_OK;
	}
	int b = parse_num(p); int e = parse_num(skip_num(p) + 1);
#if MODE == 1
	obs_block(k, id, b, e);
#endif
	if (e == 0 && (k == 'N' ? in_failN[id][b] : in_failX[id][b])) return USCXML_ERR_EXEC_CONTENT;
	return USCXML_ERR_OK;
}
static int cb_invoke(const uscxml_ctx* ctx, const uscxml_state* s, const uscxml_elem_invoke* inv, unsigned char uninvoke) {
	int i = SMAP[(int)(s - ctx->machine->states)];
#if MODE == 1
	obs_invoke(i, uninvoke);
#endif
	return USCXML_ERR_OK;
}

/* ------------------------------------------------------------------ helpers */
/* implementation bit i (uscxml numbers pseudo-states first among siblings) -> reference state SMAP[i] */
static rset bytes2set(const unsigned char* b) { rset m = 0; for (int i = 0; i < R_NS; i++) if ((b[i >> 3] >> (i & 7)) & 1) m |= RBIT(SMAP[i]); return m; }
static rset hist_domain(int h) { int p = CH.parent[h]; return CH.kind[h] == RK_HIST_DEEP ? (r_descendants(&CH, p) & PROPER_MASK) : r_children(&CH, p); }
/* "H is what recording at the exit of p produces": a legal configuration of p's subtree without p */
static int legal_below(int p, rset H, int deep) {
	if (H == 0) return 1;
	if ((H & ~r_descendants(&CH, p)) != 0) return 0;
	if (!deep) { rset ch = r_children(&CH, p); if (H & ~ch) return 0; if (r_is_parallel(&CH, p)) return H == ch; return (H & (H - 1)) == 0; }
	for (int s = 0; s < R_NS; s++) {
		int act = (s == p) || RHAS(H, s);
		if (!act) continue;
		if (s != p) { if (!r_is_proper(&CH, s)) return 0; int q = CH.parent[s]; if (q != p && !RHAS(H, q)) return 0; }
		rset ch = r_children(&CH, s);
		if (r_is_parallel(&CH, s)) { if ((H & ch) != ch) return 0; }
		else if (ch) { rset a = H & ch; if (a == 0 || (a & (a - 1))) return 0; }
	}
	return 1;
}
static rset w3c_hist(int h, rset implhist) {
	rset H = implhist & hist_domain(h);
	if (CH.kind[h] == RK_HIST_DEEP) { rset A = 0; for (int s = 0; s < R_NS; s++) if (RHAS(H, s) && r_is_atomic(&CH, s)) A |= RBIT(s); H = A; }
	return H;
}

/* ------------------------------------------------------------------ reference driver: mirrors the
 * call structure of uscxml_step (what one call covers), Appendix D inside */
static void reference(unsigned char flags0, rset conf, rset hist0, rset inv, rset ini) {
	rset hist[R_MAXS]; for (int h = 0; h < R_MAXS; h++) hist[h] = 0;
	for (int h = 0; h < R_NS; h++) if (r_is_history(&CH, h)) hist[h] = w3c_hist(h, hist0);
	int b_iq = in_iq, b_eq = in_eq, b_slot = 0;
	unsigned char bf = flags0;
	X.ret = -1; X.kind = 0; X.F = 0; X.fin_exit = 0;
	for (int k = 0; k < KEV + 2; k++) { X.deq[k] = 0; X.U[k] = 0; X.I[k] = 0; X.stable[k] = 0; }
	X.st.exited = 0; X.st.entered = 0; X.st.default_entry = 0; X.st.topfinal = 0; X.st.reenter = 0;
	for (int s = 0; s < R_MAXS; s++) { X.st.hist_content[s] = -1; X.st.done[s] = 0; X.st.done_at[s] = 0; X.st.done_key[s] = 0; }
	if (bf & 0x10) X.ret = USCXML_ERR_DONE;
	else if (bf & 0x04) {
		X.kind = 3; X.fin_exit = conf;
		for (int s = 0; s < R_NS; s++) if (RHAS(inv, s)) { if (CH_invoke[s]) X.U[0] |= RBIT(s); inv &= ~RBIT(s); }
		bf |= 0x10; X.ret = USCXML_ERR_DONE;
	} else if (bf == 0) {
		X.kind = 1;
		r_initial_step(&CH, &conf, hist, &X.st, DVARIANT);
		ini |= X.st.entered; bf = 3; if (X.st.topfinal) bf |= 4;
		X.ret = USCXML_ERR_OK;
	} else {
		int spont = bf & 1;
		for (int round = 0; round <= KEV + 2 && X.ret < 0; round++) {
			rset en = 0, F;
			if (spont) {
				for (int t = 0; t < R_NT; t++) if (CH.teventless[t] && (!CH_tcond[t] || in_cond[0][t])) en |= RBIT(t);
				F = r_select(&CH, conf, en, hist, VARIANT, X.ord);
				if (F == 0) { spont = 0; continue; }
			} else {
				if (b_iq > 0 && b_slot < KEV) { b_iq--; b_slot++; X.deq[b_slot] = 1; }
				else {
					/* macrostep is over: invocations */
					for (int s = 0; s < R_NS; s++) {
						if (!RHAS(conf, s) && RHAS(inv, s)) { if (CH_invoke[s]) X.U[b_slot] |= RBIT(s); inv &= ~RBIT(s); }
						if (RHAS(conf, s) && !RHAS(inv, s)) { if (CH_invoke[s]) X.I[b_slot] |= RBIT(s); inv |= RBIT(s); }
					}
					if (b_eq > 0 && b_slot < KEV) { b_eq--; b_slot++; X.deq[b_slot] = 2; }
					else { X.ret = USCXML_ERR_IDLE; break; }
				}
				for (int t = 0; t < R_NT; t++) if (!CH.teventless[t] && in_matched[b_slot][t] && (!CH_tcond[t] || in_cond[b_slot][t])) en |= RBIT(t);
				F = r_select(&CH, conf, en, hist, VARIANT, X.ord);
				if (F == 0) continue;
			}
			X.kind = 2; X.F = F;
			r_microstep(&CH, F, &conf, hist, &X.st, DVARIANT);
			ini |= X.st.entered; spont = 1;
			if (X.st.topfinal) bf |= 4;
			X.ret = USCXML_ERR_OK;
		}
		bf = (unsigned char)((bf & ~1) | (spont ? 1 : 0));
	}
	X.flags1 = bf; X.conf1 = conf; X.inv1 = inv; X.ini1 = ini;
	for (int h = 0; h < R_MAXS; h++) X.hist1[h] = hist[h];
}

int main(void) {
	uscxml_ctx ctx;
	r_init(&CH);
	memset(&ctx, 0, sizeof ctx);
	ctx.machine = &MACHINE;
	ctx.dequeue_internal = cb_deq_int; ctx.dequeue_external = cb_deq_ext; ctx.is_matched = cb_is_matched; ctx.is_true = cb_is_true;
	ctx.raise_done_event = cb_raise_done; ctx.exec_content_log = cb_log; ctx.invoke = cb_invoke;

	/* ---------------- symbolic inputs */
	for (int k = 0; k <= KEV; k++) for (int t = 0; t < R_NT; t++) { in_matched[k][t] = IN(nondet_uchar(), rv_matched[k][t]) & 1; in_cond[k][t] = IN(nondet_uchar(), rv_cond[k][t]) & 1; cex_matched[k][t] = in_matched[k][t]; cex_cond[k][t] = in_cond[k][t]; }
	for (int s = 0; s < R_NS; s++) for (int b = 0; b < 2; b++) { in_failN[s][b] = IN(nondet_uchar(), rv_failN[s][b]) & 1; in_failX[s][b] = IN(nondet_uchar(), rv_failX[s][b]) & 1; cex_failN[s][b] = in_failN[s][b]; cex_failX[s][b] = in_failX[s][b]; }
	for (int t = 0; t < R_NT; t++) { in_failT[t] = IN(nondet_uchar(), rv_failT[t]) & 1; cex_failT[t] = in_failT[t]; }
#ifdef NO_FAIL
	/* baseline of the C07 differential: no element of executable content fails */
	for (int s = 0; s < R_NS; s++) for (int b = 0; b < 2; b++) { in_failN[s][b] = 0; in_failX[s][b] = 0; cex_failN[s][b] = 0; cex_failX[s][b] = 0; }
	for (int t = 0; t < R_NT; t++) { in_failT[t] = 0; cex_failT[t] = 0; }
#endif
	in_iq = IN(nondet_int(), rv_iq); in_eq = IN(nondet_int(), rv_eq);
	__CPROVER_assume(in_iq >= 0 && in_iq <= KEV && in_eq >= 0 && in_eq <= KEV);
	cex_iq = in_iq; cex_eq = in_eq;

	/* ---------------- symbolic pre-state */
	for (int i = 0; i < NSB; i++) { ctx.config[i] = IN(nondet_uchar(), rv_config[i]); ctx.history[i] = IN(nondet_uchar(), rv_history[i]); ctx.invocations[i] = IN(nondet_uchar(), rv_invocations[i]); ctx.initialized_data[i] = IN(nondet_uchar(), rv_initialized[i]); }
	ctx.flags = IN(nondet_uchar(), rv_flags);
#if MODE != 3
	{
		unsigned char f = ctx.flags;
		__CPROVER_assume(f == 0 || f == 2 || f == 3 || f == 6 || f == 7 || f == 0x12 || f == 0x13 || f == 0x16 || f == 0x17);
		rset conf = bytes2set(ctx.config), hist = bytes2set(ctx.history), inv = bytes2set(ctx.invocations), ini = bytes2set(ctx.initialized_data);
		for (int i = 0; i < NSB; i++) {       /* no stray bits above the last state */
			unsigned char hi = (i == NSB - 1 && (R_NS & 7)) ? (unsigned char)(0xff << (R_NS & 7)) : 0;
			__CPROVER_assume(!(ctx.config[i] & hi) && !(ctx.history[i] & hi) && !(ctx.invocations[i] & hi) && !(ctx.initialized_data[i] & hi));
		}
		if (f == 0) __CPROVER_assume(conf == 0 && hist == 0 && inv == 0 && ini == 0);
		else {
			__CPROVER_assume(r_legal(&CH, conf));
			__CPROVER_assume((hist & ~PROPER_MASK) == 0 && (inv & ~PROPER_MASK) == 0 && (ini & ~PROPER_MASK) == 0);
			__CPROVER_assume((conf & ~ini) == 0);                 /* an active state has had its data initialised */
			rset dom = 0;
			for (int h = 0; h < R_NS; h++) if (r_is_history(&CH, h)) { dom |= hist_domain(h); __CPROVER_assume(legal_below(CH.parent[h], hist & hist_domain(h), CH.kind[h] == RK_HIST_DEEP)); }
			__CPROVER_assume((hist & ~dom) == 0);                 /* history bits only inside some history's domain */
			if (f & 4) { int tf = 0; for (int s = 0; s < R_NS; s++) if (RHAS(conf, s) && CH.kind[s] == RK_FINAL && CH.parent[s] == 0) tf = 1; __CPROVER_assume(tf); }
		}
	}
#endif
	for (int i = 0; i < NSB; i++) { cex_config[i] = ctx.config[i]; cex_history[i] = ctx.history[i]; cex_invocations[i] = ctx.invocations[i]; cex_initialized[i] = ctx.initialized_data[i]; }
	cex_flags = ctx.flags;
	rset conf0 = bytes2set(ctx.config), hist0 = bytes2set(ctx.history), inv0 = bytes2set(ctx.invocations), ini0 = bytes2set(ctx.initialized_data);
	unsigned char flags0 = ctx.flags;

#if MODE == 1
	reference(flags0, conf0, hist0, inv0, ini0);
	cex_refret = X.ret; cex_ref_F = X.F; cex_ref_exited = X.st.exited; cex_ref_entered = X.st.entered; cex_ref_conf = X.conf1;
	/* Appendix D is ill-defined when it "enters" a state that was never exited: outside the comparison */
	__CPROVER_assume(!X.st.reenter);
	__CPROVER_assume(X.ret >= 0);            /* the reference ran out of its event budget: outside the bound */
#endif

	/* ---------------- run the implementation */
	a_iq = in_iq; a_eq = in_eq; a_slot = 0;
	int ret = uscxml_step(&ctx);
	cex_ret = ret;
#ifdef WITNESS
	assert(0);
#endif
#if MODE == 3
	return 0;   /* only CBMC's built-in memory-safety assertions */
#else
	rset conf1 = bytes2set(ctx.config), hist1 = bytes2set(ctx.history), inv1 = bytes2set(ctx.invocations), ini1 = bytes2set(ctx.initialized_data);
	cex_conf1 = conf1;
#if MODE == 2
	if (!(flags0 & 0x10)) {
		__CPROVER_assert(r_legal(&CH, conf1), "C02: configuration after the step is legal");
		for (int h = 0; h < R_NS; h++) if (r_is_history(&CH, h))
			__CPROVER_assert(legal_below(CH.parent[h], hist1 & hist_domain(h), CH.kind[h] == RK_HIST_DEEP), "C02: remembered history names states that were simultaneously active below the history's parent");
	}
#ifdef REPLAY
	printf("REPLAY: pre conf=0x%x hist=0x%x flags=0x%x iq=%d eq=%d | impl: ret=%d conf'=0x%x hist'=0x%x flags'=0x%x\n", conf0, hist0, flags0, in_iq, in_eq, ret, conf1, hist1, ctx.flags);
	return replay_failed;
#endif
	return 0;
#else
	/* ---------------- completeness: everything the reference does, the implementation did */
	A(T_LIFE, ret == X.ret, "C10: return code of uscxml_step follows the documented life-cycle (equals the reference)");
	compare_actions();
	if (!(flags0 & 0x14)) {
		A(T_BEH, conf1 == X.conf1, "C04: configuration after the step equals the reference");
		for (int h = 0; h < R_NS; h++) if (r_is_history(&CH, h))
			A(T_BEH, w3c_hist(h, hist1) == X.hist1[h], "C04: remembered history equals the reference");
		A(T_BEH, ini1 == X.ini1, "C04: initialised-data set equals the reference");
	}
	A(T_INV, inv1 == X.inv1, "C11: invocation bookkeeping after the step equals the reference");
	A(T_LIFE, ctx.flags == X.flags1, "C10: life-cycle flags after the step equal the reference");
#ifdef REPLAY
	printf("REPLAY: pre conf=0x%x hist=0x%x flags=0x%x iq=%d eq=%d | ref: kind=%d ret=%d F=0x%x exited=0x%x entered=0x%x conf'=0x%x flags'=0x%x | impl: ret=%d conf'=0x%x flags'=0x%x\n",
	       conf0, hist0, flags0, in_iq, in_eq, X.kind, X.ret, X.F, X.st.exited, X.st.entered, X.conf1, X.flags1, ret, conf1, ctx.flags);
	return replay_failed;
#endif
	return 0;
#endif
#endif
}
