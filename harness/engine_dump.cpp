// engine_dump: runs the *real* FastMicroStep::init / LargeMicroStep::init (g++-built libuscxml of the
// current tree) on a skeleton document and prints the tables they built, as constant C arrays.
// The CBMC harness rebuilds the engine object from these constants, so that step() runs on exactly
// what init() produced; the tables are also compared against REF's structural relations (C05).
#include "uscxml/Interpreter.h"
#include "uscxml/interpreter/InterpreterImpl.h"
#include "uscxml/interpreter/FastMicroStep.h"
#include "uscxml/interpreter/LargeMicroStep.h"
#include "uscxml/interpreter/Logging.h"
#include "uscxml/util/DOM.h"
#include "uscxml/util/Predicates.h"
#include <cstdio>
#include <iostream>
#include <sstream>

using namespace uscxml;
using namespace XERCESC_NS;

struct DumpCB : public MicroStepCallbacks {
	std::set<InterpreterMonitor*> mons; std::string sid; Data cache;
	Event dequeueInternal() { return Event(); }
	Event dequeueExternal(size_t) { return Event(); }
	bool isMatched(const Event&, const std::string&) { return false; }
	void raiseDoneEvent(DOMElement*, DOMElement*) {}
	bool isTrue(const std::string&) { return false; }
	void initData(DOMElement*) {}
	void process(DOMElement*) {}
	void invoke(DOMElement*) {}
	void uninvoke(DOMElement*) {}
	std::set<InterpreterMonitor*> getMonitors() { return mons; }
	const std::string& getSessionId() { return sid; }
	Logger getLogger() { return Logger::getDefault(); }
	Data& getCache() { return cache; }
};

static std::string idOf(const DOMElement* e) { return e && HAS_ATTR(e, X("id")) ? ATTR(e, X("id")) : std::string(); }
static unsigned long mask(const boost::dynamic_bitset<BITSET_BLOCKTYPE>& b) { unsigned long m = 0; for (size_t i = 0; i < b.size() && i < 64; i++) if (b[i]) m |= 1ul << i; return m; }

struct uscxml_verif_access {
	static void dumpFast(DOMElement* scxml) {
		DumpCB cb;
		FastMicroStep fm(&cb);
		fm.init(scxml);
		printf("FAST ns=%zu nt=%zu binding=%d\n", fm._states.size(), fm._transitions.size(), (int)fm._binding);
		for (size_t i = 0; i < fm._states.size(); i++) {
			FastMicroStep::State* s = fm._states[i];
			printf("S %zu id=%s tag=%s type=%u parent=%u children=%lu completion=%lu ancestors=%lu data=%zu invoke=%zu onentry=%zu onexit=%zu donedata=%d docorder=%u\n",
			       i, idOf(s->element).c_str(), s->element ? LOCALNAME(s->element).c_str() : "-", (unsigned)s->type, s->parent, mask(s->children), mask(s->completion), mask(s->ancestors),
			       s->data.size(), s->invoke.size(), s->onEntry.size(), s->onExit.size(), s->doneData != NULL, s->documentOrder);
		}
		for (size_t i = 0; i < fm._transitions.size(); i++) {
			FastMicroStep::Transition* t = fm._transitions[i];
			printf("T %zu source=%u target=%lu conflicts=%lu type=%u event=%s cond=%s ontrans=%d exitfirst=%u exitlast=%u postfix=%u\n",
			       i, t->source, mask(t->target), mask(t->conflicts), (unsigned)t->type, t->event.size() ? t->event.c_str() : "-", t->cond.size() ? t->cond.c_str() : "-",
			       t->onTrans != NULL, fm._exitSets[i].first, fm._exitSets[i].second, t->postFixOrder);
		}
	}
	static unsigned long smask(const boost::container::flat_set<LargeMicroStep::State*, LargeMicroStep::StateOrder>& b) { unsigned long m = 0; for (auto s : b) m |= 1ul << s->documentOrder; return m; }
	static void dumpLarge(DOMElement* scxml) {
		DumpCB cb;
		LargeMicroStep lm(&cb);
		lm.init(scxml);
		printf("LARGE ns=%zu nt=%zu binding=%d\n", lm._states.size(), lm._transitions.size(), (int)lm._binding);
		for (size_t i = 0; i < lm._states.size(); i++) {
			LargeMicroStep::State* s = lm._states[i];
			unsigned long ch = 0; for (auto c : s->children) ch |= 1ul << c->documentOrder;
			std::string tl; for (auto t : s->transitions) { char b[16]; snprintf(b, 16, "%s%u", tl.size() ? "," : "", t->postFixOrder); tl += b; }
			printf("S %zu id=%s tag=%s type=%u parent=%u children=%lu completion=%lu ancestors=%lu data=%zu invoke=%zu onentry=%zu onexit=%zu donedata=%d docorder=%u postfix=%u trans=%s\n",
			       i, idOf(s->element).c_str(), s->element ? LOCALNAME(s->element).c_str() : "-", (unsigned)s->type, s->parent ? s->parent->documentOrder : 0, ch, smask(s->completion), smask(s->ancestors),
			       s->data.size(), s->invoke.size(), s->onEntry.size(), s->onExit.size(), s->doneData != NULL, s->documentOrder, s->postFixOrder, tl.size() ? tl.c_str() : "-");
		}
		for (size_t i = 0; i < lm._transitions.size(); i++) {
			LargeMicroStep::Transition* t = lm._transitions[i];
			unsigned long tg = 0; for (auto x : t->target) tg |= 1ul << x->documentOrder;
			std::pair<uint32_t, uint32_t> ex = lm.getExitSet(t);
			printf("T %zu source=%u target=%lu conflicts=0 type=%u event=%s cond=%s ontrans=%d exitfirst=%u exitlast=%u postfix=%u\n",
			       i, t->source->documentOrder, tg, (unsigned)t->type, t->event.size() ? t->event.c_str() : "-", t->cond.size() ? t->cond.c_str() : "-",
			       t->onTrans != NULL, ex.first, ex.second, t->postFixOrder);
		}
	}
};

int main(int argc, char** argv) {
	if (argc < 3) { fprintf(stderr, "usage: engine_dump fast|large file.scxml\n"); return 2; }
	try {
		Interpreter interp = Interpreter::fromURL(std::string("file://") + argv[2]);
		std::list<InterpreterIssue> issues = interp.validate();
		int fatal = 0;
		for (auto& i : issues) if (i.severity == InterpreterIssue::USCXML_ISSUE_FATAL) { fatal++; printf("ISSUE fatal %s\n", i.message.c_str()); }
		printf("VALIDATE fatal=%d issues=%zu\n", fatal, issues.size());
		DOMElement* scxml = interp.getImpl()->getDocument()->getDocumentElement();
		if (std::string(argv[1]) == "fast") uscxml_verif_access::dumpFast(scxml);
		else uscxml_verif_access::dumpLarge(scxml);
	} catch (Event e) {
		std::cout << "EXCEPTION " << e << std::endl; return 1;
	} catch (std::exception& e) {
		printf("EXCEPTION %s\n", e.what()); return 1;
	}
	return 0;
}
