// Native side of C12: replays solver counterexamples against the real g++-built code and runs the
// translation validation (generated C vs real functions on concrete inputs).
#define main tgc_main
#include "test-gen-c.cpp"          // StateMachine::nameMatch, the copy shipped as C scaffolding
#undef main
#include "uscxml/util/String.h"
extern "C" {
#include "name_match.h"
int tv_call_a(const char* d, uint64_t dl, const char* e, uint64_t el);
int tv_call_b(const char* d, uint64_t dl, const char* e, uint64_t el);
}
#include <cstdio>
#include <cstring>
#include <string>
#include <vector>
#include <fstream>

static std::string unhex(const char* h) {
	std::string s; size_t n = strlen(h);
	for (size_t i = 0; i + 1 < n; i += 2) { unsigned v; sscanf(h + i, "%2x", &v); s.push_back((char)v); }
	return s;
}
static std::string hex(const std::string& s) { char b[4]; std::string o; for (size_t i = 0; i < s.size(); i++) { snprintf(b, 4, "%02x", (unsigned char)s[i]); o += b; } return o; }

int main(int argc, char** argv) {
	if (argc >= 4 && !strcmp(argv[1], "replay")) {
		std::string d = unhex(argv[2]), e = unhex(argv[3]);
		int wf = 0;
		int spec = nm_spec((const uint8_t*)d.data(), d.size(), (const uint8_t*)e.data(), e.size(), &wf, d.size());
		printf("real=%d scaffold=%d spec=%d wf=%d\n", (int)uscxml::nameMatch(d, e), (int)StateMachine::nameMatch(d, e), spec, wf);
		return 0;
	}
	if (argc >= 5 && !strcmp(argv[1], "tv")) {
		// tv <alphabet> <maxd> <maxe> [file with extra "d\te" lines]
		std::string al = argv[2]; int md = atoi(argv[3]), me = atoi(argv[4]);
		std::vector<std::string> ds(1, ""), es(1, "");
		for (size_t b = 0, l = 0; l < (size_t)md; l++) { size_t en = ds.size(); for (size_t i = b; i < en; i++) for (size_t k = 0; k < al.size(); k++) ds.push_back(ds[i] + al[k]); b = en; }
		for (size_t b = 0, l = 0; l < (size_t)me; l++) { size_t en = es.size(); for (size_t i = b; i < en; i++) for (size_t k = 0; k < al.size(); k++) es.push_back(es[i] + al[k]); b = en; }
		std::vector<std::pair<std::string, std::string> > extra;
		if (argc >= 6) { std::ifstream f(argv[5]); std::string ln; while (std::getline(f, ln)) { size_t t = ln.find('\t'); if (t != std::string::npos) extra.push_back(std::make_pair(ln.substr(0, t), ln.substr(t + 1))); } }
		long n = 0, bad = 0;
		for (size_t i = 0; i < ds.size() + extra.size(); i++) {
			size_t je = i < ds.size() ? es.size() : 1;
			for (size_t j = 0; j < je; j++) {
				const std::string& d = i < ds.size() ? ds[i] : extra[i - ds.size()].first;
				const std::string& e = i < ds.size() ? es[j] : extra[i - ds.size()].second;
				int ra = uscxml::nameMatch(d, e), rb = StateMachine::nameMatch(d, e);
				int ta = tv_call_a(d.data(), d.size(), e.data(), e.size()), tb = tv_call_b(d.data(), d.size(), e.data(), e.size());
				n++;
				if (ra != ta || rb != tb) { if (bad < 10) printf("TV-MISMATCH d=%s e=%s real=%d gen=%d scaffold=%d genb=%d\n", hex(d).c_str(), hex(e).c_str(), ra, ta, rb, tb); bad++; }
			}
		}
		printf("tv cases=%ld mismatches=%ld\n", n, bad);
		return bad ? 1 : 0;
	}
	fprintf(stderr, "usage: replay <hexd> <hexe> | tv <alphabet> <maxd> <maxe> [file]\n");
	return 2;
}
