// pml_dump: runs the *real* Promela parser (flex/bison code of the current tree, g++-built libuscxml) on each input
// line and prints the AST it built.  Lines: "<kind> <text>" with kind E(xpression) S(tatement) D(eclaration).
// Output per line: "AST <n-nodes> type=<parser type>" followed by "N <idx> <type> <nchild> <children...> |<value>"
// in pre-order (node 0 is the root), or "PARSEERROR <message>".
#include "uscxml/plugins/datamodel/promela/PromelaParser.h"
#include "uscxml/plugins/datamodel/promela/parser/promela.tab.hpp"
#include <iostream>
#include <vector>
#include <cstdio>
using namespace uscxml;

static void number(PromelaParserNode* n, std::vector<PromelaParserNode*>& out) {
	out.push_back(n);
	for (auto c : n->operands) number(c, out);
}

int main() {
	std::string line;
	while (std::getline(std::cin, line)) {
		if (line.size() < 3) continue;
		std::string text = line.substr(2);
		try {
			PromelaParser p(text);
			if (!p.ast) { printf("PARSEERROR no ast\n"); continue; }
			std::vector<PromelaParserNode*> ns;
			number(p.ast, ns);
			printf("AST %zu type=%d\n", ns.size(), (int)p.type);
			for (size_t i = 0; i < ns.size(); i++) {
				printf("N %zu %d %zu", i, ns[i]->type, ns[i]->operands.size());
				for (auto c : ns[i]->operands) for (size_t k = 0; k < ns.size(); k++) if (ns[k] == c) printf(" %zu", k);
				printf(" |%s\n", ns[i]->value.c_str());
			}
		} catch (Event e) {
			printf("PARSEERROR %s\n", e.data.compound.count("cause") ? e.data.compound["cause"].atom.c_str() : e.name.c_str());
		} catch (...) {
			printf("PARSEERROR unknown\n");
		}
		fflush(stdout);
	}
	return 0;
}
