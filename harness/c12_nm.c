/* C12 harness: the real uscxml::nameMatch (and StateMachine::nameMatch of test-gen-c.cpp), lowered
 * from LLVM IR by ir2c, against the recommendation's relation (spec/name_match.h).
 *   -DGENC="file.c"   generated C     -DFN_A=..., -DFN_B=... translated entry points
 *   -DLD, -DLE        length bounds   -DMODE=1 (A == spec on well-formed input)
 *                                     -DMODE=2 (A == B on all strings over the alphabet)
 *                                     -DMODE=3 (B == spec on well-formed input)
 *   -DEXCL_CASE       exclude inputs covered by the known finding "case-insensitive equality"
 */
#include GENC
#include "strmodel.c"
#include "name_match.h"
#include <assert.h>
#ifndef LD
#define LD 4
#endif
#ifndef LE
#define LE 4
#endif
u8 nondet_u8(void); u64 nondet_u64(void);
static int okc(u8 c) { return c == 'a' || c == 'b' || c == 'A' || c == '.' || c == '*' || c == ' '; }
typedef struct { u64 w[4]; } strobj;
u8 cex_d[LD + 1]; u64 cex_dl; u8 cex_e[LE + 1]; u64 cex_el; u8 cex_ra, cex_rb; int cex_spec, cex_wf;

static void mk(strobj* o, u64 maxlen, u8* copy, u64* lcopy) {
	u8* s = (u8*)o; s_init(s);
	u64 n = nondet_u64(); __CPROVER_assume(n <= maxlen);
	u8* d = S_P(s);
	for (u64 i = 0; i <= maxlen; i++) {
		u8 c = nondet_u8();
		if (i < n) { __CPROVER_assume(okc(c)); d[i] = c; } else { c = 0; d[i] = 0; }
		copy[i] = c;
	}
	S_LEN(s) = n; *lcopy = n;
}
static u8 lc(u8 c) { return (c >= 'A' && c <= 'Z') ? (u8)(c + 32) : c; }

int main(void) {
	strobj d, e; mk(&d, LD, cex_d, &cex_dl); mk(&e, LE, cex_e, &cex_el);
	int wf = 0;
	int ref = nm_spec(cex_d, cex_dl, cex_e, cex_el, &wf, LD);
	cex_spec = ref; cex_wf = wf;
#if MODE == 1 || MODE == 3
	__CPROVER_assume(wf);
#endif
#ifdef EXCL_CASE
	/* known finding: a descriptor that equals the whole event name up to letter case matches */
	{
		u64 b = 0; int hit = 0;
		for (u64 i = 0; i <= LD; i++) {
			if (i > cex_dl) break;
			if (i == cex_dl || cex_d[i] == ' ') {
				if (i > b) {
					u64 en = nm_strip(cex_d, b, i);
					if (en - b == cex_el) {
						int ieq = 1, eq = 1;
						for (u64 k = 0; k < LE; k++) { if (k >= cex_el) break; if (lc(cex_d[b + k]) != lc(cex_e[k])) ieq = 0; if (cex_d[b + k] != cex_e[k]) eq = 0; }
						if (ieq && !eq) hit = 1;
					}
				}
				b = i + 1;
			}
		}
		__CPROVER_assume(!hit);
	}
#endif
#if MODE == 1
	u8 r = FN_A((u8*)&d, (u8*)&e); cex_ra = r;
#elif MODE == 3
	u8 r = FN_B((u8*)&d, (u8*)&e); cex_rb = r;
#else
	u8 r = FN_A((u8*)&d, (u8*)&e); cex_ra = r;
	u8 r2 = FN_B((u8*)&d, (u8*)&e); cex_rb = r2;
#endif
#ifdef WITNESS
	assert(0);
#endif
	__CPROVER_assert(!__ir_exc_pending, "no exception escapes nameMatch");
#if MODE == 2
	__CPROVER_assert((r != 0) == (r2 != 0), "C12: interpreter matcher and generated-C scaffolding matcher agree");
#else
	__CPROVER_assert((r != 0) == (ref != 0), "C12: nameMatch equals the recommendation's relation");
#endif
	return 0;
}
