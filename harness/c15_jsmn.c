/* C15(a): the real contrib/src/jsmn/jsmn.c under CBMC, for every input of <= JL bytes and every
 * token budget Data::fromJSON can pass.  Memory safety = CBMC's built-in bounds/pointer checks;
 * termination = unwinding assertions; plus the post-condition spec/jsmn_post.h. */
#include JSMN_C
#include "jsmn_post.h"
#include <assert.h>
#include <string.h>
#ifndef JL
#define JL 6
#endif
unsigned nondet_uint(void); char nondet_char(void);
char cex_js[JL + 1]; unsigned cex_n, cex_len; int cex_rv;
int main(void) {
	unsigned len = nondet_uint(); __CPROVER_assume(len >= 1 && len <= JL);
	char* js = (char*)malloc(JL + 1);
	for (unsigned i = 0; i <= JL; i++) { char c = nondet_char(); if (i >= len) c = 0; else __CPROVER_assume(c != 0); js[i] = c; cex_js[i] = c; }
	unsigned N = nondet_uint(); __CPROVER_assume(N <= len);          /* fromJSON: size/frac, frac in 8,4,2,1 */
	cex_n = N; cex_len = len;
	jsmntok_t* t = (jsmntok_t*)malloc((JL + 1) * sizeof(jsmntok_t));    /* constant size; only N+1 are "allocated" */
	memset(t, 0, (JL + 1) * sizeof(jsmntok_t));
	jsmn_parser p; jsmn_init(&p);
	int rv = jsmn_parse(&p, js, t, N);
	cex_rv = rv;
#ifdef WITNESS
	assert(0);
#endif
	/* nothing beyond the N tokens handed in may be written (the (N+1)th is fromJSON's sentinel) */
	for (unsigned i = 0; i <= JL; i++) if (i >= N) __CPROVER_assert(t[i].type == 0 && t[i].start == 0 && t[i].end == 0 && t[i].size == 0, "C15: jsmn writes no token beyond its budget");
	__CPROVER_assert(p.pos <= len, "C15: jsmn never moves past the terminating NUL");
	__CPROVER_assert(jsmn_post(rv, t, N, p.toknext, len), "C15: jsmn post-condition (token bounds, order, nesting)");
	return 0;
}
