/* Shared by harness/c04_step.c (emitted C) and harness/engine_main.c (interpreter engines):
 * the expectation computed from the reference model, and the observer that every callback of the
 * implementation reports to.  Observable actions are compared as *sets plus canonical order*:
 *   (i) the action is expected, (ii) it has not happened before, (iii) its position key is larger
 *   than the previous action's key; at the end every expected action must have been seen.
 * With a strict total order on the expected actions this is sequence equality, and it needs no
 * data-dependent array index (which is what makes it cheap for a bit-precise symbolic executor).
 *
 * Assertions are tagged with the property they belong to; -DCHK=<mask> selects which are checked:
 *   T_BEH  behaviour vs reference (C01 / C03 / C04, prefix PROP_BEH)      T_ERR  C07 error containment
 *   T_DEQ  C08 dequeue discipline     T_LIFE C10 life-cycle     T_INV C11 invoke bookkeeping     T_MON C13 monitors
 */
#ifndef EXPECT_H
#define EXPECT_H
#define T_BEH 1
#define T_ERR 2
#define T_DEQ 4
#define T_LIFE 8
#define T_INV 16
#define T_MON 32
#ifndef CHK
#define CHK 63
#endif
#ifndef PROP_BEH
#define PROP_BEH "C04"
#endif
#ifndef ELEMS
#define ELEMS 2          /* observable elements per block: 2 in skeleton documents run by emitted C, 1 for engines (one process() per block) */
#endif
#define A(tag, cond, msg) do { if ((CHK) & (tag)) __CPROVER_assert(cond, msg); } while (0)

/* ------------------------------------------------------------------ symbolic environment */
static unsigned char in_matched[KEV + 1][R_NT + 1];   /* [event slot][REF transition] */
static unsigned char in_cond[KEV + 1][R_NT + 1];
static unsigned char in_failN[R_NS][2], in_failX[R_NS][2], in_failT[R_NT + 1], in_failI[R_NS];
static int in_iq, in_eq;                               /* pending internal / external events at call time */

/* ------------------------------------------------------------------ expectation (from REF) */
static struct {
	int ret; unsigned flags1;
	int kind;                       /* 0 nothing, 1 initial step, 2 microstep, 3 finalize */
	rset F; uint8_t ord[R_MAXT];
	ref_step st;
	rset fin_exit;                  /* finalize: states whose onexit runs */
	unsigned char deq[KEV + 2];     /* deq[k]: 0 none, 1 internal, 2 external for slot k (1-based) */
	rset U[KEV + 2], I[KEV + 2];    /* invoke phase at round r: uninvoke / invoke callbacks */
	unsigned char stable[KEV + 2];  /* a stable-configuration notice is due in round r */
	rset conf1, inv1, ini1; rset hist1[R_MAXS];
} X;
/* what the implementation did */
static unsigned char seenN[R_NS], seenX[R_NS], seenT[R_NT + 1], seenDone[R_NS], seenDeq[KEV + 2], seenStable[KEV + 2];
static rset seenU[KEV + 2], seenI[KEV + 2];
static rset monBX, monAX, monBN, monAN, monBT, monAT;  /* monitor: before/after exit, enter, transition (REF indices) */
static int monBeforeMicro, monAfterMicro, monBeforeCompletion, monAfterCompletion, monEvent;
static long last_key = -1;
static int a_iq, a_eq, a_slot;

#define MB (1000L * (KEV + 2))
#define KEY_DEQ(k) (1000L * (k))
#define KEY_EVMON(k) (1000L * (k) + 1)
#ifdef INV_INTERLEAVED
#define KEY_INV(r, s, un) (1000L * (r) + 100 + 2 * (s) + ((un) ? 0 : 1))
#else
#define KEY_INV(r, s, un) (1000L * (r) + 100 + (s) + ((un) ? 0 : R_NS))
#endif
#define KEY_STABLE(r) (1000L * (r) + 900)
#define KEY_BEFORE_MICRO (MB - 1)
#define KEY_X(s, sub) (MB + (long)(R_NS - 1 - (s)) * 16 + (sub))
#define TB_ (MB + 16L * R_NS)
#define KEY_T(t, sub) (TB_ + (long)X.ord[t] * 4 + (sub))
#define NB_ (TB_ + 4L * R_NS)
#define KEY_N(s, sub) (NB_ + (long)(s) * 32 + (sub))
#define KEY_AFTER_MICRO (NB_ + 32L * R_NS)

static void at_key(int tag, long key) {
	A(tag, key > last_key, PROP_BEH "/C13: observable actions happen in the order the reference prescribes (dequeue, exits in reverse document order, transition content in selection order, entries in document order: onentry, initial content, history content, done events)");
	last_key = key;
}

/* ------------------------------------------------------------------ observer */
static int obs_deq(int kind /* 1 internal, 2 external */) {
	/* returns 1 iff an event is available; the slot becomes a_slot */
	if (kind == 1 ? (a_iq > 0) : (a_eq > 0)) {
		if (a_slot >= KEV) return 0;
		if (kind == 1) a_iq--; else a_eq--;
		a_slot++;
		A(T_DEQ, X.deq[a_slot] == kind, "C08: an event is dequeued exactly when the reference dequeues one: internal events first, one per step, an external event only when the internal queue is empty and no eventless transition is enabled");
		at_key(T_DEQ, KEY_DEQ(a_slot)); seenDeq[a_slot]++;
		return 1;
	}
	return 0;
}
static void obs_block(int kind /* 'N' or 'X' */, int s, int b, int e) {
	if (kind == 'N') {
		A(T_BEH, (X.kind == 1 || X.kind == 2) && RHAS(X.st.entered, s), PROP_BEH ": onentry handler of a state the reference does not enter");
		A(T_BEH, !((seenN[s] >> (b * 2 + e)) & 1), PROP_BEH ": onentry block executed twice");
		seenN[s] |= (unsigned char)(1 << (b * 2 + e)); at_key(T_BEH, KEY_N(s, 1 + b * 2 + e));
	} else {
		/* in the finalising step (kind 3) these are also the life-cycle clause of C10: every remaining onexit once, reverse document order */
		int tg = T_BEH | (X.kind == 3 ? T_LIFE : 0);
		A(tg, (X.kind == 2 && RHAS(X.st.exited, s)) || (X.kind == 3 && RHAS(X.fin_exit, s)), PROP_BEH ": onexit handler of a state the reference does not exit");
		A(tg, !((seenX[s] >> (b * 2 + e)) & 1), PROP_BEH ": onexit block executed twice");
		seenX[s] |= (unsigned char)(1 << (b * 2 + e)); at_key(tg, KEY_X(s, 1 + b * 2 + e));
	}
}
static void obs_trans_content(int t, int e) {
	A(T_BEH, !((seenT[t] >> e) & 1), PROP_BEH ": transition content executed twice");
	seenT[t] |= (unsigned char)(1 << e);
	if (CH.tkind[t] == RT_NORMAL) { A(T_BEH, X.kind == 2 && RHAS(X.F, t), PROP_BEH ": content of a transition executed that is not in the optimal transition set"); at_key(T_BEH, KEY_T(t, 1 + e)); }
	else if (CH.tkind[t] == RT_INITIAL) { int st = CH.parent[CH.tsrc[t]]; A(T_BEH, (X.kind == 1 || X.kind == 2) && RHAS(X.st.default_entry, st), PROP_BEH ": <initial> transition content executed although its state is not entered by default"); at_key(T_BEH, KEY_N(st, 7 + e)); }
	else { int st = CH.parent[CH.tsrc[t]]; A(T_BEH, (X.kind == 1 || X.kind == 2) && X.st.hist_content[st] == t, PROP_BEH ": history default content executed although the reference does not"); at_key(T_BEH, KEY_N(st, 11 + e)); }
}
static void obs_done(int p) {
	a_iq++;
	A(T_BEH, X.kind == 1 || X.kind == 2, PROP_BEH ": done event only in a micro step");
	A(T_BEH, seenDone[p] < X.st.done[p], PROP_BEH ": done.state event raised that the reference does not raise (or raised twice)");
	int f = X.st.done_at[p];
	if (seenDone[p] == 0) at_key(T_BEH, KEY_N(f, 14 + (X.st.done_key[p] - 8)));
	seenDone[p]++;
}
static void obs_invoke(int s, int uninvoke) {
	if (X.kind == 3) { A(T_INV, uninvoke && RHAS(X.U[0], s) && !RHAS(seenU[0], s), "C11: at finalisation exactly the running invocations are cancelled, once"); seenU[0] |= RBIT(s); at_key(T_INV, KEY_X(s, 7)); }
	else if (uninvoke) { A(T_INV, RHAS(X.U[a_slot], s) && !RHAS(seenU[a_slot], s), "C11: an invocation is cancelled exactly once, at the end of the macrostep in which its state was exited"); seenU[a_slot] |= RBIT(s); at_key(T_INV, KEY_INV(a_slot, s, 1)); }
	else { A(T_INV, RHAS(X.I[a_slot], s) && !RHAS(seenI[a_slot], s), "C11: an invocation is started exactly once, when a macrostep ends with its state active and not yet invoked"); seenI[a_slot] |= RBIT(s); at_key(T_INV, KEY_INV(a_slot, s, 0)); }
}

/* ------------------------------------------------------------------ final comparison */
static void compare_actions(void) {
	for (int k = 1; k <= KEV; k++) A(T_DEQ, seenDeq[k] == (X.deq[k] != 0), "C08: every event the reference dequeues is dequeued, exactly once");
	for (int r = 0; r <= KEV; r++) A(T_INV, seenU[r] == X.U[r] && seenI[r] == X.I[r], "C11: every invoke / uninvoke of the reference happened");
	for (int s = 0; s < R_NS; s++) {
		unsigned char expN = 0, expX = 0;
		if ((X.kind == 1 || X.kind == 2) && RHAS(X.st.entered, s)) for (int b = 0; b < CH_n_onentry[s] && b < 2; b++) { expN |= (unsigned char)(1 << (b * 2)); if (ELEMS > 1 && !in_failN[s][b]) expN |= (unsigned char)(1 << (b * 2 + 1)); }
		if ((X.kind == 2 && RHAS(X.st.exited, s)) || (X.kind == 3 && RHAS(X.fin_exit, s))) for (int b = 0; b < CH_n_onexit[s] && b < 2; b++) { expX |= (unsigned char)(1 << (b * 2)); if (ELEMS > 1 && !in_failX[s][b]) expX |= (unsigned char)(1 << (b * 2 + 1)); }
		A(T_BEH | T_ERR, seenN[s] == expN, PROP_BEH "/C07: exactly the onentry blocks of the entered states ran (a failing element skips only the rest of its own block)");
		A(T_BEH | T_ERR | (X.kind == 3 ? T_LIFE : 0), seenX[s] == expX, PROP_BEH "/C07: exactly the onexit blocks of the exited states ran (a failing element skips only the rest of its own block)");
		A(T_BEH, seenDone[s] == ((X.kind == 1 || X.kind == 2) ? X.st.done[s] : 0), PROP_BEH ": exactly the done.state events of the reference were raised");
	}
	for (int t = 0; t < R_NT; t++) {
		unsigned char exp = 0; int on = 0;
		if (CH.tkind[t] == RT_NORMAL) on = X.kind == 2 && RHAS(X.F, t);
		else if (CH.tkind[t] == RT_INITIAL) on = (X.kind == 1 || X.kind == 2) && RHAS(X.st.default_entry, CH.parent[CH.tsrc[t]]);
		else on = (X.kind == 1 || X.kind == 2) && X.st.hist_content[CH.parent[CH.tsrc[t]]] == t;
		if (on && CH_tcontent[t]) { exp = 1; if (ELEMS > 1 && !in_failT[t]) exp |= 2; }
		A(T_BEH | T_ERR, seenT[t] == exp, PROP_BEH "/C07: exactly the transition content of the reference ran");
	}
}
#endif
