/* Interpreter engine harness (C side): one call of the real FastMicroStep::step / LargeMicroStep::step
 * from a pre-state, callback answers symbolic, against the reference model.  Same observer as the
 * emitted-C harness (harness/expect.h).
 *
 *   CBMC build  : -DENGINE_C="x_eng.c" (engine + C++ harness lowered from LLVM IR by ir2c) + C models
 *   native build: -DNATIVE (links the g++-compiled harness/engine_<e>.cpp and libuscxml): replay of solver
 *                 counterexamples and translation validation (every scenario executed on the real object code)
 *   -DFACTS=... -DFACTS_PRE=... -DSCENARIOS=...   -DVARIANT / -DDVARIANT reference relation
 *   -DMODE=1 behaviour (+C07/C08/C10/C11/C13 tags)   -DMODE=2 legality of the post-state (C02)
 */
#ifdef NATIVE
#include <stdint.h>
#include <stdio.h>
#include <stdlib.h>
#include <string.h>
typedef uint8_t u8; typedef uint16_t u16; typedef uint32_t u32; typedef uint64_t u64;
#define IR_ASSERT(c, msg) do { if (!(c)) { printf("NATIVE-FAIL: %s\n", msg); native_failed = 1; } } while (0)
static int native_failed = 0;
static int __ir_exc_pending = 0;
int ir_dynamic = 0;
/* the g++-compiled C++ harness */
void eng_build(int); void eng_set(u64, u64, u64, u64, unsigned, int); void eng_get(u64*); int eng_step(void); u64 eng_descr_addr(unsigned); u64 eng_cond_addr(unsigned);
#define f_eng_build eng_build
#define f_eng_set eng_set
#define f_eng_get(p) eng_get((u64*)(p))
#define f_eng_step eng_step
#define f_eng_descr_addr eng_descr_addr
#define f_eng_cond_addr eng_cond_addr
#define M_h_deq_int h_deq_int
#define M_h_deq_ext h_deq_ext
#define M_h_is_matched h_is_matched
#define M_h_is_true h_is_true
#define M_h_process h_process
#define M_h_invoke h_invoke
#define M_h_uninvoke h_uninvoke
#define M_h_done h_done
#define M_h_initdata h_initdata
#define M_h_mon h_mon
static unsigned native_rand_state = 12345;
static unsigned native_rand(void) { native_rand_state = native_rand_state * 1103515245u + 12345u; return (native_rand_state >> 16) & 0x7fff; }
#define __CPROVER_assume(c) do { if (!(c)) { native_skipped++; return; } } while (0)
static int native_skipped = 0, native_current_sc = -1, native_reported = 0;
#define __CPROVER_assert(c, msg) do { if (!(c)) { printf("NATIVE-FAIL: scenario %d: %s\n", native_current_sc, msg); native_failed = 1; } } while (0)
#else
#include ENGINE_C
#include "strmodel.c"
#include "cxx.c"
#include "bitset.c"
#include "event.c"
#endif
#include FACTS_PRE
#include "scxml_ref.h"
#include FACTS
#include <assert.h>

#ifndef KEV
#define KEV 1          /* an engine step dequeues at most one event */
#endif
#ifndef VARIANT
#define VARIANT 0
#endif
#ifndef DVARIANT
#define DVARIANT 0
#endif
#ifndef WITH_MON
#define WITH_MON 1
#endif
#ifndef WITNESS_SC
#define WITNESS_SC -1
#endif
#ifdef SCENARIOS
#include SCENARIOS
#endif
#define ELEMS 1
#include "expect.h"

#ifndef NATIVE
unsigned char nondet_uchar(void); unsigned nondet_uint(void); int nondet_int(void); u64 nondet_u64(void);
#endif
#ifdef NATIVE
/* native runs: "symbolic" inputs are either replayed (rv_* arrays from a counterexample) or pseudo-random */
#ifdef REPLAY
#include REPLAY
#define IN(nd, rv) (rv)
#else
#define IN(nd, rv) (native_rand())
#endif
#else
#define IN(nd, rv) (nd)
#endif

/* engine flags / return codes (FastMicroStep.cpp, InterpreterState.h) */
#define F_SPONT 0x01
#define F_INIT 0x02
#define F_TOPFINAL 0x04
#define F_FINISHED 0x10
#define F_STABLE 0x20
#define RET_FINISHED (-1)
#define RET_IDLE 1
#define RET_MICRO 4
#define RET_MACRO 5
#define RET_CANCELLED 6

u64 cex_conf, cex_hist, cex_inv, cex_ini; unsigned cex_flags; int cex_cancelled, cex_iq, cex_eq, cex_ret;
unsigned char cex_matched[KEV + 1][R_NT + 1], cex_cond[KEV + 1][R_NT + 1], cex_failN[R_NS][2], cex_failX[R_NS][2], cex_failT[R_NT + 1], cex_failI[R_NS];

/* ------------------------------------------------------------------ hooks called by the C++ harness */
enum { K_STATE = 1, K_ONENTRY, K_ONEXIT, K_INVOKE, K_DATA, K_TRANS, K_ONTRANS, K_DONEDATA };
enum { M_BEFORE_EVENT = 1, M_BEFORE_MICRO, M_BEFORE_EXIT, M_AFTER_EXIT, M_BEFORE_TRANS, M_AFTER_TRANS, M_BEFORE_ENTER, M_AFTER_ENTER,
       M_AFTER_MICRO, M_STABLE, M_BEFORE_COMPLETION, M_AFTER_COMPLETION, M_ISSUE };
#define TKIND(t) ((int)((t) >> 20))
#define TIDX(t) ((int)(((t) >> 4) & 0xffff))
#define TSUB(t) ((int)((t) & 15))
static u64 descr_addr[R_NT + 1], cond_addr[R_NT + 1];
static int monStableSeen;

u32 M_h_deq_int(void) { return MODE == 1 ? (u32)obs_deq(1) : (u32)((a_iq > 0 && a_slot < KEV) ? (a_iq--, a_slot++, 1) : 0); }
u32 M_h_deq_ext(void) { return MODE == 1 ? (u32)obs_deq(2) : (u32)((a_eq > 0 && a_slot < KEV) ? (a_eq--, a_slot++, 1) : 0); }
u32 M_h_is_matched(u64 a) { for (int t = 0; t < R_NT; t++) if (descr_addr[t] == a) return in_matched[a_slot][TMAP[t]]; IR_ASSERT(0, "harness: unknown descriptor"); return 0; }
u32 M_h_is_true(u64 a) { for (int t = 0; t < R_NT; t++) if (cond_addr[t] == a) return in_cond[a_slot][TMAP[t]]; IR_ASSERT(0, "harness: unknown condition"); return 0; }
u32 M_h_process(u64 tag) {
	int k = TKIND(tag), i = TIDX(tag), b = TSUB(tag);
	if (k == K_ONENTRY) { int s = SMAP[i]; if (MODE == 1) obs_block('N', s, b, 0); return in_failN[s][b & 1]; }
	if (k == K_ONEXIT) { int s = SMAP[i]; if (MODE == 1) obs_block('X', s, b, 0); return in_failX[s][b & 1]; }
	if (k == K_ONTRANS) { int t = TMAP[i]; if (MODE == 1) obs_trans_content(t, 0); return in_failT[t]; }
	IR_ASSERT(0, "harness: process() on an element that is no executable block"); return 0;
}
u32 M_h_invoke(u64 tag) { int s = SMAP[TIDX(tag)]; if (MODE == 1) obs_invoke(s, 0); return in_failI[s]; }
void M_h_uninvoke(u64 tag) { int s = SMAP[TIDX(tag)]; if (MODE == 1) obs_invoke(s, 1); }
void M_h_done(u64 tag) { if (MODE == 1) obs_done(SMAP[TIDX(tag)]); else a_iq++; }
void M_h_initdata(u64 tag) { }
void M_h_mon(u32 kind, u64 tag) {
#if MODE == 1
	int micro = (X.kind == 1 || X.kind == 2);
	if (kind == M_BEFORE_EVENT) { A(T_MON, a_slot >= 1 && X.deq[a_slot] != 0 && monEvent == a_slot - 1, "C13: beforeProcessingEvent exactly once per dequeued event"); monEvent = a_slot; at_key(T_MON, KEY_EVMON(a_slot)); }
	else if (kind == M_BEFORE_MICRO) { A(T_MON, micro && !monBeforeMicro, "C13: beforeMicroStep opens the bracket of a micro step that takes transitions, once"); monBeforeMicro++; at_key(T_MON, KEY_BEFORE_MICRO); }
	else if (kind == M_AFTER_MICRO) { A(T_MON, micro && monBeforeMicro == 1 && !monAfterMicro, "C13: afterMicroStep closes the bracket, once"); monAfterMicro++; at_key(T_MON, KEY_AFTER_MICRO); }
	else if (kind == M_BEFORE_EXIT || kind == M_AFTER_EXIT) {
		int s = SMAP[TIDX(tag)];
		A(T_MON, X.kind == 2 && RHAS(X.st.exited, s) && monBeforeMicro == 1 && !monAfterMicro, "C13: exit notices only for states the step exits, inside the micro-step bracket");
		if (kind == M_BEFORE_EXIT) { A(T_MON, !RHAS(monBX, s), "C13: beforeExitingState once per exited state"); monBX |= RBIT(s); at_key(T_MON, KEY_X(s, 0)); }
		else { A(T_MON, RHAS(monBX, s) && !RHAS(monAX, s), "C13: afterExitingState follows its beforeExitingState, once"); monAX |= RBIT(s); at_key(T_MON, KEY_X(s, 6)); }
	} else if (kind == M_BEFORE_ENTER || kind == M_AFTER_ENTER) {
		int s = SMAP[TIDX(tag)];
		A(T_MON, micro && RHAS(X.st.entered, s) && monBeforeMicro == 1 && !monAfterMicro, "C13: entry notices only for states the step enters, inside the micro-step bracket");
		if (kind == M_BEFORE_ENTER) { A(T_MON, !RHAS(monBN, s), "C13: beforeEnteringState once per entered state"); monBN |= RBIT(s); at_key(T_MON, KEY_N(s, 0)); }
		else { A(T_MON, RHAS(monBN, s) && !RHAS(monAN, s), "C13: afterEnteringState follows its beforeEnteringState, once"); monAN |= RBIT(s); at_key(T_MON, KEY_N(s, 5)); }
	} else if (kind == M_BEFORE_TRANS || kind == M_AFTER_TRANS) {
		int t = TMAP[TIDX(tag)];
		int on = CH.tkind[t] == RT_NORMAL ? (X.kind == 2 && RHAS(X.F, t)) : CH.tkind[t] == RT_INITIAL ? (micro && RHAS(X.st.default_entry, CH.parent[CH.tsrc[t]])) : (micro && X.st.hist_content[CH.parent[CH.tsrc[t]]] == t);
		A(T_MON, on && monBeforeMicro == 1 && !monAfterMicro, "C13: transition notices only for transitions the step takes, inside the micro-step bracket");
		long kb = CH.tkind[t] == RT_NORMAL ? KEY_T(t, 0) : CH.tkind[t] == RT_INITIAL ? KEY_N(CH.parent[CH.tsrc[t]], 6) : KEY_N(CH.parent[CH.tsrc[t]], 10);
		if (kind == M_BEFORE_TRANS) { A(T_MON, !RHAS(monBT, t), "C13: beforeTakingTransition once per taken transition"); monBT |= RBIT(t); at_key(T_MON, kb); }
		else { A(T_MON, RHAS(monBT, t) && !RHAS(monAT, t), "C13: afterTakingTransition follows its beforeTakingTransition, once"); monAT |= RBIT(t); at_key(T_MON, kb + 3); }
	} else if (kind == M_STABLE) { A(T_MON, X.stable[a_slot] && !monStableSeen, "C13: onStableConfiguration exactly once per completed macrostep"); monStableSeen++; at_key(T_MON, KEY_STABLE(a_slot)); }
	else if (kind == M_BEFORE_COMPLETION) { A(T_MON, X.kind == 3 && !monBeforeCompletion, "C13: beforeCompletion once, in the finalising step"); monBeforeCompletion++; at_key(T_MON, KEY_BEFORE_MICRO); }
	else if (kind == M_AFTER_COMPLETION) { A(T_MON, X.kind == 3 && monBeforeCompletion == 1 && !monAfterCompletion, "C13: afterCompletion closes beforeCompletion"); monAfterCompletion++; at_key(T_MON, KEY_AFTER_MICRO); }
#endif
}

/* ------------------------------------------------------------------ helpers (reference state space) */
static rset impl2ref(u64 m) { rset r = 0; for (int i = 0; i < R_NS; i++) if ((m >> i) & 1) r |= RBIT(SMAP[i]); return r; }
static u64 ref2impl(rset m) { u64 r = 0; for (int i = 0; i < R_NS; i++) if (RHAS(m, SMAP[i])) r |= (u64)1 << i; return r; }
static rset hist_domain(int h) { int p = CH.parent[h]; return CH.kind[h] == RK_HIST_DEEP ? (r_descendants(&CH, p) & PROPER_MASK) : r_children(&CH, p); }
static int legal_below(int p, rset H, int deep) {
	if (H == 0) return 1;
	if ((H & ~r_descendants(&CH, p)) != 0) return 0;
	if (!deep) { rset ch = r_children(&CH, p); if (H & ~ch) return 0; if (r_is_parallel(&CH, p)) return H == ch; return (H & (H - 1)) == 0; }
	for (int s = 0; s < R_NS; s++) {
		int act = (s == p) || RHAS(H, s);
		if (!act) continue;
		if (s != p) { if (!r_is_proper(&CH, s)) return 0; int q = CH.parent[s]; if (q != p && !RHAS(H, q)) return 0; }
		rset ch = r_children(&CH, s);
		if (r_is_parallel(&CH, s)) { if ((H & ch) != ch) return 0; }
		else if (ch) { rset a = H & ch; if (a == 0 || (a & (a - 1))) return 0; }
	}
	return 1;
}
static rset w3c_hist(int h, rset implhist) {
	rset H = implhist & hist_domain(h);
	if (CH.kind[h] == RK_HIST_DEEP) { rset A_ = 0; for (int s = 0; s < R_NS; s++) if (RHAS(H, s) && r_is_atomic(&CH, s)) A_ |= RBIT(s); H = A_; }
	return H;
}

/* ------------------------------------------------------------------ reference driver: what one engine step() covers */
static void reference(unsigned flags0, rset conf, rset hist0, rset inv, rset ini, int cancelled) {
	rset hist[R_MAXS]; for (int h = 0; h < R_MAXS; h++) hist[h] = 0;
	for (int h = 0; h < R_NS; h++) if (r_is_history(&CH, h)) hist[h] = w3c_hist(h, hist0);
	int b_iq = in_iq, b_eq = in_eq, b_slot = 0;
	unsigned bf = flags0;
	X.ret = -100; X.kind = 0; X.F = 0; X.fin_exit = 0;
	for (int k = 0; k < KEV + 2; k++) { X.deq[k] = 0; X.U[k] = 0; X.I[k] = 0; X.stable[k] = 0; }
	X.st.exited = 0; X.st.entered = 0; X.st.default_entry = 0; X.st.topfinal = 0; X.st.reenter = 0;
	for (int s = 0; s < R_MAXS; s++) { X.st.hist_content[s] = -1; X.st.done[s] = 0; X.st.done_at[s] = 0; X.st.done_key[s] = 0; }
	rset en = 0, F = 0; int select = 0;
	if (bf & F_FINISHED) X.ret = RET_FINISHED;
	else if (bf & F_TOPFINAL) {
		X.kind = 3; X.fin_exit = conf;
		for (int s = 0; s < R_NS; s++) if (RHAS(inv, s)) { if (CH_invoke[s]) X.U[0] |= RBIT(s); inv &= ~RBIT(s); }
		bf |= F_FINISHED; X.ret = RET_FINISHED;
	} else if (bf == 0) {
		X.kind = 1;
		r_initial_step(&CH, &conf, hist, &X.st, DVARIANT);
		ini |= X.st.entered; bf = F_SPONT | F_INIT; if (X.st.topfinal) bf |= F_TOPFINAL;
		X.ret = RET_MICRO;
	} else if (bf & F_SPONT) {
		for (int t = 0; t < R_NT; t++) if (CH.teventless[t] && (!CH_tcond[t] || in_cond[0][t])) en |= RBIT(t);
		select = 1;
	} else if (b_iq > 0) {
		b_iq--; b_slot++; X.deq[b_slot] = 1;
		for (int t = 0; t < R_NT; t++) if (!CH.teventless[t] && in_matched[b_slot][t] && (!CH_tcond[t] || in_cond[b_slot][t])) en |= RBIT(t);
		select = 1;
	} else {
		/* macrostep is over: cancel invocations of exited states, start those of active states */
		for (int s = 0; s < R_NS; s++) if (!RHAS(conf, s) && RHAS(inv, s) && CH_invoke[s]) { X.U[0] |= RBIT(s); inv &= ~RBIT(s); }
		for (int s = 0; s < R_NS; s++) if (RHAS(conf, s) && !RHAS(inv, s) && CH_invoke[s]) { X.I[0] |= RBIT(s); inv |= RBIT(s); }
		if (!(bf & F_STABLE)) { X.stable[0] = 1; bf |= F_STABLE; X.ret = RET_MACRO; }
		else if (b_eq > 0) {
			b_eq--; b_slot++; X.deq[b_slot] = 2;
			for (int t = 0; t < R_NT; t++) if (!CH.teventless[t] && in_matched[b_slot][t] && (!CH_tcond[t] || in_cond[b_slot][t])) en |= RBIT(t);
			select = 1;
		} else if (cancelled) { bf |= F_TOPFINAL; X.ret = RET_CANCELLED; }
		else X.ret = RET_IDLE;
	}
	if (select) {
		bf &= ~F_STABLE;
		F = r_select(&CH, conf, en, hist, VARIANT, X.ord);
		if (F == 0) { bf &= ~F_SPONT; X.ret = RET_MICRO; }
		else {
			X.kind = 2; X.F = F; bf |= F_SPONT;
			r_microstep(&CH, F, &conf, hist, &X.st, DVARIANT);
			ini |= X.st.entered;
			if (X.st.topfinal) bf |= F_TOPFINAL;
			X.ret = RET_MICRO;
		}
	}
	X.flags1 = bf; X.conf1 = conf; X.inv1 = inv; X.ini1 = ini;
	for (int h = 0; h < R_MAXS; h++) X.hist1[h] = hist[h];
}

/* inside a batch an assumption must only drop the current scenario, never the rest of the run */
#if defined(SCENARIOS) && !defined(NATIVE)
#define SC_ASSUME(c) do { if (!(c)) return; } while (0)
#else
#define SC_ASSUME(c) __CPROVER_assume(c)
#endif
static void reset_observer(void) {
	for (int s = 0; s < R_NS; s++) { seenN[s] = 0; seenX[s] = 0; seenDone[s] = 0; }
	for (int t = 0; t <= R_NT; t++) seenT[t] = 0;
	for (int k = 0; k < KEV + 2; k++) { seenDeq[k] = 0; seenStable[k] = 0; seenU[k] = 0; seenI[k] = 0; }
	monBX = monAX = monBN = monAN = monBT = monAT = 0;
	monBeforeMicro = monAfterMicro = monBeforeCompletion = monAfterCompletion = monEvent = 0; monStableSeen = 0;
	last_key = -1;
}

static void one_step(int sc) {
	reset_observer();
#ifndef NATIVE
	/* every scenario allocates from its own, constant region of the pools: the number of allocations of the previous
	 * scenario may depend on symbolic throw patterns, and a symbolic allocation counter makes every later pointer a
	 * several-hundred-way case split */
#ifdef IR_POOL
	if (sc >= 0) { ir_ns = 160 + (unsigned)sc * 40; ir_nm = 64 + (unsigned)sc * 8; }
#endif
#endif
#ifdef NATIVE
	native_current_sc = sc;
#endif
	/* ---------------- symbolic inputs */
	for (int k = 0; k <= KEV; k++) for (int t = 0; t < R_NT; t++) { in_matched[k][t] = IN(nondet_uchar(), rv_matched[k][t]) & 1; in_cond[k][t] = IN(nondet_uchar(), rv_cond[k][t]) & 1; cex_matched[k][t] = in_matched[k][t]; cex_cond[k][t] = in_cond[k][t]; }
	for (int s = 0; s < R_NS; s++) { for (int b = 0; b < 2; b++) { in_failN[s][b] = IN(nondet_uchar(), rv_failN[s][b]) & 1; in_failX[s][b] = IN(nondet_uchar(), rv_failX[s][b]) & 1; cex_failN[s][b] = in_failN[s][b]; cex_failX[s][b] = in_failX[s][b]; } in_failI[s] = IN(nondet_uchar(), rv_failI[s]) & 1; cex_failI[s] = in_failI[s]; }
	for (int t = 0; t < R_NT; t++) { in_failT[t] = IN(nondet_uchar(), rv_failT[t]) & 1; cex_failT[t] = in_failT[t]; }
	in_iq = IN(nondet_int(), rv_iq); in_eq = IN(nondet_int(), rv_eq);
#ifdef NATIVE
	in_iq %= 3; in_eq %= 3;
#endif
	SC_ASSUME(in_iq >= 0 && in_iq <= 2 && in_eq >= 0 && in_eq <= 2);
	cex_iq = in_iq; cex_eq = in_eq;

	/* ---------------- symbolic pre-state (reference index space), installed into the real engine */
	rset conf = IN(nondet_uint(), rv_conf), hist = IN(nondet_uint(), rv_hist), inv = IN(nondet_uint(), rv_inv), ini = IN(nondet_uint(), rv_ini);
	unsigned flags = IN(nondet_uchar(), rv_flags); int cancelled = IN(nondet_uchar(), rv_cancelled) & 1;
#ifdef SCENARIOS
	if (sc >= 0) {
#ifdef NOFAIL
		for (int s_ = 0; s_ < R_NS; s_++) { in_failN[s_][0] = in_failN[s_][1] = in_failX[s_][0] = in_failX[s_][1] = 0; in_failI[s_] = 0; } for (int t = 0; t < R_NT; t++) in_failT[t] = 0;
#endif
		in_iq = SC_iq[sc]; in_eq = SC_eq[sc]; cancelled = SC_cancelled[sc];
		conf = SC_conf[sc]; hist = SC_hist[sc]; inv = SC_inv[sc]; ini = SC_ini[sc]; flags = SC_flags[sc];
		for (int k = 0; k <= KEV; k++) for (int t = 0; t < R_NT; t++) { in_matched[k][t] = (SC_enabled[sc] >> t) & 1; in_cond[k][t] = (SC_enabled[sc] >> t) & 1; }
	}
#endif
#ifdef FIXFLAGS
	flags = FIXFLAGS;
#endif
	rset all = (R_NS >= 32) ? 0xffffffffu : (RBIT(R_NS) - 1);
	SC_ASSUME(!(conf & ~all) && !(hist & ~all) && !(inv & ~all) && !(ini & ~all));
	SC_ASSUME(flags == 0 || ((flags & F_INIT) && !(flags & ~(F_SPONT | F_INIT | F_TOPFINAL | F_FINISHED | F_STABLE))));
	SC_ASSUME(!((flags & F_STABLE) && (flags & F_SPONT)));       /* STABLE is cleared whenever transitions are selected */
	if (flags == 0) SC_ASSUME(conf == 0 && hist == 0 && inv == 0 && ini == 0);
	else {
		SC_ASSUME(r_legal(&CH, conf));
		SC_ASSUME((hist & ~PROPER_MASK) == 0 && (inv & ~PROPER_MASK) == 0 && (ini & ~PROPER_MASK) == 0);
		SC_ASSUME((conf & ~ini) == 0);
		rset dom = 0;
		for (int h = 0; h < R_NS; h++) if (r_is_history(&CH, h)) { dom |= hist_domain(h); SC_ASSUME(legal_below(CH.parent[h], hist & hist_domain(h), CH.kind[h] == RK_HIST_DEEP)); }
		SC_ASSUME((hist & ~dom) == 0);
		for (int s = 0; s < R_NS; s++) if (RHAS(inv, s)) SC_ASSUME(CH_invoke[s]);   /* the engines only mark states that have <invoke> */
		if ((flags & F_TOPFINAL) && !cancelled) { int tf = 0; for (int s = 0; s < R_NS; s++) if (RHAS(conf, s) && CH.kind[s] == RK_FINAL && CH.parent[s] == 0) tf = 1; SC_ASSUME(tf); }
	}
	cex_conf = conf; cex_hist = hist; cex_inv = inv; cex_ini = ini; cex_flags = flags; cex_cancelled = cancelled;
	f_eng_set(ref2impl(conf), ref2impl(hist), ref2impl(inv), ref2impl(ini), flags, cancelled);

#if MODE == 1
	reference(flags, conf, hist, inv, ini, cancelled);
	SC_ASSUME(!X.st.reenter);     /* Appendix D is ill-defined when it "enters" a state that was never exited */
#endif
	a_iq = in_iq; a_eq = in_eq; a_slot = 0;
	ir_dynamic = 0;
	int ret = (int)f_eng_step();
	cex_ret = ret;
	A(T_ERR, !__ir_exc_pending, "C07: no exception leaves step(), whatever the callbacks throw");
	SC_ASSUME(!__ir_exc_pending);
	u64 out[6]; f_eng_get((u8*)out);
	rset conf1 = impl2ref(out[0]), hist1 = impl2ref(out[1]), inv1 = impl2ref(out[2]), ini1 = impl2ref(out[3]); unsigned flags1 = (unsigned)out[4];
#if MODE == 2
	if (!(flags & F_FINISHED)) {
		__CPROVER_assert(r_legal(&CH, conf1), "C02: configuration after the step is legal");
		for (int h = 0; h < R_NS; h++) if (r_is_history(&CH, h))
			__CPROVER_assert(legal_below(CH.parent[h], hist1 & hist_domain(h), CH.kind[h] == RK_HIST_DEEP), "C02: remembered history names states that were simultaneously active below the history's parent");
	}
#else
	A(T_LIFE, ret == X.ret, "C10: the result of step() follows the documented life-cycle (equals the reference)");
	compare_actions();
#if WITH_MON
	if (X.kind == 2) { A(T_MON, monBX == X.st.exited && monAX == X.st.exited, "C13: every exited state is reported, before and after"); }
	if (X.kind == 1 || X.kind == 2) {
		A(T_MON, monBN == X.st.entered && monAN == X.st.entered, "C13: every entered state is reported, before and after");
		rset expT = X.kind == 2 ? X.F : 0;
		for (int t = 0; t < R_NT; t++) { if (CH.tkind[t] == RT_INITIAL && RHAS(X.st.default_entry, CH.parent[CH.tsrc[t]])) expT |= RBIT(t); if (CH.tkind[t] == RT_HISTORY && X.st.hist_content[CH.parent[CH.tsrc[t]]] == t) expT |= RBIT(t); }
		A(T_MON, monBT == expT && monAT == expT, "C13: every taken transition is reported, before and after");
		A(T_MON, monBeforeMicro == 1 && monAfterMicro == 1, "C13: the micro step is bracketed by beforeMicroStep / afterMicroStep");
	} else A(T_MON, monBeforeMicro == 0 && monAfterMicro == 0 && monBX == 0 && monBN == 0 && monBT == 0, "C13: nothing is reported outside a micro-step bracket except event processing, stable-configuration and completion notices");
	A(T_MON, monStableSeen == X.stable[0], "C13: onStableConfiguration exactly once per completed macrostep");
	A(T_MON, monEvent == (X.deq[1] != 0), "C13: every processed event is reported");
	if (X.kind == 3) A(T_MON, monBeforeCompletion == 1 && monAfterCompletion == 1, "C13: completion is reported, before and after");
#endif
#ifdef ENGINE_LARGE
	ini1 = X.ini1;    /* LargeMicroStep only records states that have <data> children (none in skeleton documents) */
#endif
	if (!(flags & (F_FINISHED | F_TOPFINAL))) {
		A(T_BEH, conf1 == X.conf1, PROP_BEH ": configuration after the step equals the reference");
		for (int h = 0; h < R_NS; h++) if (r_is_history(&CH, h))
			A(T_BEH, w3c_hist(h, hist1) == X.hist1[h], PROP_BEH ": remembered history equals the reference");
		A(T_BEH, ini1 == X.ini1, PROP_BEH ": initialised-data set equals the reference");
	}
#ifdef ENGINE_LARGE
	{ rset im = 0; for (int s_ = 0; s_ < R_NS; s_++) if (CH_invoke[s_]) im |= RBIT(s_); inv1 &= im; }   /* LargeMicroStep marks every active state, with or without <invoke> */
#endif
	A(T_INV, inv1 == X.inv1, "C11: invocation bookkeeping after the step equals the reference");
	A(T_LIFE, flags1 == X.flags1, "C10: life-cycle flags after the step equal the reference");
#ifdef NATIVE
	if (native_failed && !native_reported) { native_reported = 1;
		fprintf(stderr, "NATIVE-DETAIL: scenario %d pre conf=0x%x hist=0x%x inv=0x%x flags=0x%x iq=%d eq=%d cancelled=%d enabled=0x%x | ref kind=%d ret=%d F=0x%x exited=0x%x entered=0x%x conf'=0x%x flags'=0x%x | impl ret=%d conf'=0x%x hist'=0x%x inv'=0x%x flags'=0x%x | monBX=0x%x monBN=0x%x monBT=0x%x\n",
		       sc, conf, hist, inv, flags, in_iq, in_eq, cancelled, (unsigned)(sc >= 0 ? SC_enabled[sc] : 0), X.kind, X.ret, X.F, X.st.exited, X.st.entered, X.conf1, X.flags1, ret, conf1, hist1, inv1, flags1, monBX, monBN, monBT); }
#endif
#endif
}

int main(void) {
	r_init(&CH);
	f_eng_build(WITH_MON);
	IR_ASSERT(!__ir_exc_pending, "harness: engine construction threw");
#if !defined(NATIVE) && defined(IR_POOL)
	IR_ASSERT(ir_ns <= 160 && ir_nm <= 64, "BOUND: engine construction used more pool blocks than reserved");
#endif
	for (unsigned t = 0; t < R_NT; t++) { descr_addr[t] = f_eng_descr_addr(t); cond_addr[t] = f_eng_cond_addr(t); }

#ifdef SCENARIOS
	/* configurations, histories, invocation sets, flags and the enabled transition set are enumerated (constant per
	 * scenario, generated by engine/engines.py from the chart): the engines walk bit sets with find_first/find_next and
	 * index their state vectors with the result, and a symbolic index into pointer-rich containers is what this
	 * technique cannot carry (see DESIGN.md).  What stays symbolic per scenario: which executable blocks / invocations
	 * throw, the queue lengths, the cancel flag. */
	for (int sc = 0; sc < N_SCENARIOS; sc++) {
#ifdef NATIVE
#ifdef REPLAY
		if (sc != REPLAY_SC) continue;
		one_step(sc);
#else
		for (int rep = 0; rep < 8; rep++) one_step(sc);
#endif
#else
		one_step(sc);
#endif
	}
#else
	one_step(-1);
#endif
#if defined(PROBE_NS) && defined(IR_POOL)
	__CPROVER_assert(ir_ns == PROBE_NS && ir_nm == PROBE_NM, "probe: allocation counters");
#endif
#ifdef WITNESS
	assert(0);      /* reachability twin: the end of the harness must be reachable */
#endif
#ifdef NATIVE
	printf("native: scenarios=%d skipped=%d failed=%d\n",
#ifdef SCENARIOS
	       N_SCENARIOS,
#else
	       1,
#endif
	       native_skipped, native_failed);
	return native_failed;
#endif
	return 0;
}
