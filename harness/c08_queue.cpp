// C08(b): the real BasicEventQueue (BasicEventQueue.cpp, lowered from LLVM IR), single thread:
// the C driver (harness/c08_queue_main.c) runs an enumerated sequence of enqueue / non-blocking dequeue / reset
// with symbolic event tags and checks FIFO order, exactly-once delivery and lock balance.
#include "uscxml/interpreter/BasicEventQueue.h"
using namespace uscxml;
static BasicEventQueue* g_q;
extern "C" {
	void q_new(void) { g_q = new BasicEventQueue(); }
	void q_enqueue(unsigned char tag) { Event e; char n[2] = { (char)tag, 0 }; e.name = n; g_q->BasicEventQueue::enqueue(e); }
	int q_dequeue(void) { Event e = g_q->BasicEventQueue::dequeue(0); if (!e) return -1; return (unsigned char)e.name[0]; }
	void q_reset(void) { g_q->BasicEventQueue::reset(); }
}
