/* C18: the next-state function defined by the combinational equations emitted by `uscxml-transform -tvhdl`
 * (parsed and re-emitted as C, VHDL_C) against the reference model under the transpilers' conflict relation,
 * for every legal configuration x (spontaneous step | every event of the document) x every condition valuation. */
#include FACTS_PRE
#include "scxml_ref.h"
#include FACTS
#include VHDL_C
#include GLUE          /* static void set_inputs(rset conf, int ev, const unsigned char* cond); static int get_next(int s)...; N_EVENTS; TEVENT[] */
#include <assert.h>
unsigned nondet_uint(void); unsigned char nondet_uchar(void); int nondet_int(void);
unsigned cex_conf; int cex_ev; unsigned char cex_cond[R_NT + 1];
int main(void) {
	r_init(&CH);
	rset conf = nondet_uint();
	rset all = (R_NS >= 32) ? 0xffffffffu : (RBIT(R_NS) - 1);
	__CPROVER_assume(!(conf & ~all) && r_legal(&CH, conf));
	int ev = nondet_int(); __CPROVER_assume(ev >= -1 && ev < N_EVENTS);     /* -1: spontaneous step */
	unsigned char cond[R_NT + 1];
	for (int t = 0; t < R_NT; t++) { cond[t] = nondet_uchar() & 1; cex_cond[t] = cond[t]; }
	cex_conf = conf; cex_ev = ev;
	/* ---- the hardware equations */
	set_inputs(conf, ev, cond);
	vhdl_eval();
	/* ---- the reference */
	rset hist[R_MAXS]; for (int h = 0; h < R_MAXS; h++) hist[h] = 0;
	rset en = 0;
	for (int t = 0; t < R_NT; t++) {
		if (ev < 0) { if (CH.teventless[t] && (!CH_tcond[t] || cond[t])) en |= RBIT(t); }
		else { if (!CH.teventless[t] && TEVENT[t] == ev && (!CH_tcond[t] || cond[t])) en |= RBIT(t); }
	}
	uint8_t ord[R_MAXT]; ref_step st; rset c1 = conf;
	rset F = r_select(&CH, conf, en, hist, 1, ord);
	st.exited = 0; st.entered = 0; st.reenter = 0;
	if (F) r_microstep(&CH, F, &c1, hist, &st, 1);
	__CPROVER_assume(!st.reenter);
#ifdef WITNESS
	assert(0);
#endif
	for (int t = 0; t < R_NT; t++) __CPROVER_assert(get_opt(t) == (int)RHAS(F, t), "C18: in_optimal_transition_set equals the optimal enabled transition set");
	for (int s = 1; s < R_NS; s++) {
		__CPROVER_assert(get_next(s) == (int)RHAS(c1, s), "C18: state_next equals the next configuration of the step algorithm");
		__CPROVER_assert(get_exit(s) == (int)RHAS(st.exited, s), "C18: in_exit_set equals the exit set");
		__CPROVER_assert(get_entry(s) == (int)(RHAS(st.entered, s) && F), "C18: in_entry_set equals the entry set");
	}
#ifdef REPLAY_PRINT
	{ unsigned vn = 1, vx = 0, ve = 0, vo = 0; for (int s = 1; s < R_NS; s++) { vn |= (unsigned)get_next(s) << s; vx |= (unsigned)get_exit(s) << s; ve |= (unsigned)get_entry(s) << s; } for (int t = 0; t < R_NT; t++) vo |= (unsigned)get_opt(t) << t;
	  printf("REPLAY: conf=0x%x ev=%d | ref F=0x%x exited=0x%x entered=0x%x next=0x%x | vhdl opt=0x%x exit=0x%x entry=0x%x next=0x%x\n", conf, ev, F, st.exited, F ? st.entered : 0, c1, vo, vx, ve, vn); }
#endif
	return 0;
}
