/* C08(b) driver: every sequence of NOPS operations over {enqueue(tag), dequeue, reset} is enumerated (constant per
 * scenario), the tags are symbolic bytes; a shadow FIFO written in C is the reference. */
#include QUEUE_C
#include "strmodel.c"
#include "cxx.c"
#include "event.c"
#include "thread.c"
#include <assert.h>
unsigned char nondet_uchar(void);
#ifndef NOPS
#define NOPS 4
#endif
static int pow3(int n) { int r = 1; for (int i = 0; i < n; i++) r *= 3; return r; }
int main(void) {
	f_q_new();
	IR_ASSERT(!__ir_exc_pending, "harness: constructor threw");
	for (int seq = SEQ_FROM; seq < SEQ_TO; seq++) {
		unsigned char shadow[NOPS]; int head = 0, tail = 0;
		f_q_reset();
		int code = seq;
		for (int k = 0; k < NOPS; k++) {
			int op = code % 3; code /= 3;
			int depth0 = ir_lock_depth;
			if (op == 0) {
				unsigned char tag = nondet_uchar(); __CPROVER_assume(tag != 0);
				int n0 = ir_cv_notified;
				f_q_enqueue(tag); shadow[tail++] = tag;
				__CPROVER_assert(ir_cv_notified > n0, "C08: enqueue wakes up a waiting consumer");
			} else if (op == 1) {
				int got = (int)(int32_t)f_q_dequeue();
				if (head < tail) { __CPROVER_assert(got == shadow[head], "C08: events are delivered in the order they were enqueued, each exactly once"); head++; }
				else __CPROVER_assert(got == -1, "C08: an empty queue delivers nothing");
			} else { f_q_reset(); head = tail = 0; }
			__CPROVER_assert(!__ir_exc_pending, "C08: no exception from a queue operation");
			__CPROVER_assert(ir_lock_depth == depth0 && !ir_unlock_without_lock, "C08: the queue mutex is released on every path (lock balance)");
			__CPROVER_assert(ir_lock_ops > 0, "C08: queue operations take the mutex");
		}
	}
#ifdef WITNESS
	assert(0);
#endif
	return 0;
}
