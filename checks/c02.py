"""C02 -- legal configuration after every microstep (inductive step + base case).
Subjects: the emitted ANSI-C machine (here); FastMicroStep / LargeMicroStep (engine harness, when built)."""
from common import *
import stepcheck, enginecheck


def run(tier, seed):
    chk = Check('C02', tier, seed)
    W = workdir('C02')
    native_build(['bin/uscxml-transform'])
    sr = stepcheck.StepRun(chk, W, tier)
    prepared = sr.prepare(sr.filter_known(stepcheck.documents(tier, seed + 1000, n_random=24 if tier == 'quick' else 300), ('C02',)))
    tmo = 300 if tier == 'quick' else 3600
    sr.run(prepared, [dict(name='legal', mode=2, variant=1, witness=True)], tmo, 'C02')
    sr.known_finding_witnesses('C02', tmo)
    enginecheck.run_engines(chk, 'C02', W, tier, seed + 2, 63, n_random=1 if tier == 'quick' else 30, batches_per_doc=4 if tier == 'quick' else 80, mode=2)
    chk.functions += ['uscxml_step (emitted C, this run\'s uscxml-transform -tc output)']
    chk.bounds = {'chart_states_max': max([len(p[1].nodes) for p in prepared] + [0]), 'events_dequeued_per_call_max': stepcheck.KEV,
                  'steps': '1 from every legal pre-state with consistent history (induction step) and from the pristine state (base case)'}
    chk.assumptions += ['INV: configuration legal (Rec. 3.11), root active, remembered history per history state empty or a legal sub-configuration below its parent, flags reachable',
                        'INV is asserted again after the step, so it is inductive: the claim covers event histories of any length for the enumerated documents',
                        'documents: generated valid charts and corpus shapes (valid by construction: targets orthogonal, initial/history defaults inside the parent)']
    chk.outside += ['documents rejected by validation', 'charts above the size bound']
    chk.samples += [{'doc': p[1].name, 'kind': p[0], 'shape': p[1].describe()[:200]} for p in prepared[:10]]
    return chk.finish()


def do_replay(path):
    rc = stepcheck.replay_file(path, workdir('C02', clean=False))
    if rc:
        log('VIOLATION property=C02 replay=%s' % path)
    return rc
