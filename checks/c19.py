"""C19 -- soundness of "no fatal issue": a document the real validator accepts must not reach an illegal
configuration because of how its targets / initial states are arranged.

Decided part: for generated documents -- valid ones and deliberately odd ones (non-orthogonal multi-targets,
initial attributes pointing at foreign or deep states, history defaults outside the parent, missing history
defaults) -- the real Interpreter::validate() runs natively (harness/engine_dump.cpp, which also runs the real
FastMicroStep::init under a crash guard); for every document it lets through without fatal issue the C02
inductive query on the emitted C machine must hold.  A validated document for which the solver finds a step
from a legal configuration to an illegal one is a C19 violation (replayed natively)."""
import os, random, json, copy
from common import *
import chartgen, genc, engines, stepcheck


def odd_variants(rng, c, k):
    """Return up to k structurally odd mutants of chart c (fresh objects)."""
    out = []
    for i in range(k):
        m = copy.deepcopy(c)
        m.name = '%s_odd%d' % (c.name, i)
        proper = [n for n in m.nodes if n.kind in ('state', 'parallel', 'final')]
        kind = 'related_pair' if i == 0 else rng.choice(['multi', 'multi3', 'multi3', 'foreign_initial', 'hist_outside', 'hist_nodefault', 'deep_initial'])
        try:
            if kind == 'related_pair':
                # VALID per the recommendation: an ancestor listed next to one of its own descendants (either order);
                # the validator must not call this an illegal configuration
                ts = [t for t in m.trans if t.src.kind not in ('history', 'initial') and len(t.targets) == 1 and t.targets[0].kind in ('state', 'final', 'parallel')
                      and [a for a in t.targets[0].ancestors() if a.kind == 'state']]
                t = rng.choice(ts); x = t.targets[0]; a = rng.choice([a for a in x.ancestors() if a.kind == 'state'])
                t.targets = [a, x] if rng.random() < 0.6 else [x, a]
                m.expect_valid = True
            elif kind == 'multi':
                ts = [t for t in m.trans if t.src.kind not in ('history', 'initial') and t.targets]
                t = rng.choice(ts); t.targets = t.targets + [rng.choice(proper)]
            elif kind == 'multi3':
                # three or more targets: two siblings below a compound state, separated by a relative (ancestor or
                # descendant) of the first one -- the pairwise legality check has to look past related pairs
                cs = [n for n in proper if n.kind == 'state' and len([x for x in n.children if x.kind in ('state', 'parallel', 'final')]) >= 2]
                a = rng.choice(cs); kids = [x for x in a.children if x.kind in ('state', 'parallel', 'final')]
                a1, a2 = rng.sample(kids, 2)
                rel = [a] + [p for p in a.ancestors() if p.kind in ('state', 'parallel')] + [d for d in a1.descendants() if d.kind in ('state', 'parallel', 'final')]
                mid = rng.sample(rel, min(len(rel), rng.choice([1, 1, 2])))
                ts = [t for t in m.trans if t.src.kind not in ('history', 'initial')]
                t = rng.choice(ts); t.targets = [a1] + mid + [a2]
                if rng.random() < 0.3: t.targets.append(rng.choice(proper))
            elif kind == 'foreign_initial':
                cs = [n for n in m.nodes if n.is_compound() and n.kind == 'state' and not any(x.kind == 'initial' for x in n.children)]
                n = rng.choice(cs); n.initial_attr = [rng.choice([p for p in proper if p is not n and n not in p.ancestors()])]
            elif kind == 'deep_initial':
                cs = [n for n in m.nodes if n.is_compound() and not any(x.kind == 'initial' for x in n.children)]
                n = rng.choice(cs); n.initial_attr = [rng.choice([d for d in n.descendants() if d.kind in ('state', 'parallel', 'final')])]
            elif kind == 'hist_outside':
                hs = [n for n in m.nodes if n.kind == 'history']
                h = rng.choice(hs); h.trans[0].targets = [rng.choice([p for p in proper if h.parent not in p.ancestors()])]
            else:
                hs = [n for n in m.nodes if n.kind == 'history']
                h = rng.choice(hs); h.trans = []
        except (IndexError, ValueError):
            continue
        m.index()
        m.odd_kind = kind
        out.append(m)
    return out


def run(tier, seed):
    chk = Check('C19', tier, seed)
    W = workdir('C19')
    native_build(['bin/uscxml-transform', 'lib/libuscxml.so'])
    rng = random.Random(seed)
    nbase = 10 if tier == 'quick' else 120
    bases = [c for _, c in stepcheck.documents(tier, seed + 19, n_random=nbase, n_corpus=0)]
    docs = []
    for c in bases:
        docs.append(c)
        docs += odd_variants(rng, c, 6)
    docs = [c for c in docs if not stepcheck.excluded_by_finding(c, ('C02', 'C19'))]
    stats = {'validated': 0, 'rejected': 0, 'crashed_or_failed': 0}

    def job(c):
        genc.normalise(c)
        sx = os.path.join(W, c.name + '.scxml'); open(sx, 'w').write(c.to_xml())
        try:
            S, T, meta = engines.dump('fast', sx)
        except InfraError as e:
            return (c, 'dump-failed', str(e)[:200], None, None)
        if meta.get('fatal'):
            return (c, 'rejected', meta['fatal'], None, None)
        try:
            gc, fh = genc.prepare(c, W, c.name)
        except InfraError as e:
            return (c, 'not-prepared', str(e)[:200], None, None)
        r = genc.step_query(gc, fh, 2, variant=1, timeout=240 if tier == 'quick' else 1200)
        return (c, 'validated', None, (gc, fh), r)
    for c, st, info, prep, r in pmap(job, docs):
        odd = getattr(c, 'odd_kind', None)
        if st == 'rejected' and (odd is None or getattr(c, 'expect_valid', False)):
            # converse clause: a document that satisfies the structural constraints is reported without fatal issue
            # (native verdict of the real validator on a generated valid document; not solver-decided)
            path = chk.write_replay(c.name, {'kind': 'validator-verdict', 'doc': c.name, 'scxml': c.to_xml(), 'fatal': info})
            chk.violation('%s [%s]%s is structurally valid but Interpreter::validate() reports a fatal issue: %s' % (c.name, c.describe()[:140], ' (odd: %s)' % odd if odd else '', str(info)[:200]), path)
            stats['rejected'] += 1; continue
        if st == 'rejected':
            stats['rejected'] += 1; chk.extra.setdefault('rejected_by_validator', []).append({'doc': c.name, 'odd': odd}); continue
        if st == 'dump-failed':
            # validation or the real init() failed/crashed on a generated document
            stats['crashed_or_failed'] += 1
            if odd is None:
                chk.infra_problem('%s: validator/init failed on a valid generated document: %s' % (c.name, info))
            else:
                chk.extra.setdefault('odd_documents_failing_before_validation_verdict', []).append({'doc': c.name, 'odd': odd, 'why': info})
            continue
        if st == 'not-prepared':
            chk.extra.setdefault('documents_not_prepared', []).append({'doc': c.name, 'odd': odd, 'why': info}); continue
        stats['validated'] += 1
        chk.query('%s%s' % (c.name, ' (odd: %s)' % odd if odd else ''), r, bound='%d states' % len(c.nodes), note=c.describe()[:160])
        if r.status == 'success': continue
        if r.status != 'failed':
            chk.extra.setdefault('no_verdict', []).append(c.name); continue
        props = sorted(set(d for n, d in r.failed))
        if any('unwinding' in d for d in props):
            chk.infra_problem('%s: inconclusive (unwinding)' % c.name); continue
        gc, fh = prep
        rt = genc.step_query(gc, fh, 2, variant=1, timeout=600, trace=True)
        inp = genc.cex_inputs(rt.out, len(c.nodes), len(c.trans), 2)
        nat = genc.native_replay(gc, fh, 2, inp, W, c.name, variant=1)
        chk.replays_native += 1
        what = '%s [%s]%s passes Interpreter::validate() without fatal issue, yet one step of the generated machine leads from a legal configuration to an illegal one: %s' % (
            c.name, c.describe()[:140], ' (odd: %s)' % odd if odd else '', (nat['fails'] or props)[:2])
        if not (nat['fails'] or nat['sanitizer']):
            chk.infra_problem('SPURIOUS: ' + what); continue
        path = chk.write_replay(c.name, {'kind': 'emitted-c-step', 'doc': c.name, 'scxml': c.to_xml(), 'mode': 2, 'variant': 1, 'kev': 2, 'inputs': inp, 'native': nat['out'][-1200:], 'failed': nat['fails']})
        chk.violation(what, path)
    chk.extra['validator_verdicts'] = stats
    chk.functions += ['Interpreter::validate() / InterpreterIssue.cpp (native, real)', 'FastMicroStep::init (native, real, crash guard)', 'uscxml_step of the emitted C (CBMC, C02 query)']
    chk.assumptions += ['the validator and init() run natively and concretely per document (DOM code); the solver decides "legal configuration stays legal" on the machine generated for every accepted document',
                        'a counterexample is an inductive-step counterexample from an arbitrary legal configuration; it is replayed natively on the emitted C']
    chk.outside += ['absence of false fatals beyond the generated valid documents (valid random/feature documents and the related_pair variants: native verdict, not solver-decided) and of spurious syntax warnings (needs the datamodels)', 'termination of validation on arbitrary XML', 'InterpreterIssue.cpp under the solver']
    chk.samples += [{'doc': c.name, 'odd': getattr(c, 'odd_kind', None), 'shape': c.describe()[:160]} for c in docs[:12]]
    return chk.finish()


def do_replay(path):
    d = json.load(open(path))
    if d.get('kind') == 'validator-verdict':
        # re-run the real validator on the stored document
        W = workdir('C19_replay'); native_build(['bin/uscxml-transform', 'lib/libuscxml.so'])
        sx = os.path.join(W, d['doc'] + '.scxml'); open(sx, 'w').write(d['scxml'])
        S, T, meta = engines.dump('fast', sx)
        rc = 1 if meta.get('fatal') else 0
        log('%s: Interpreter::validate() fatal=%s' % (d['doc'], meta.get('fatal')))
        if rc: log('VIOLATION property=C19 replay=%s' % path)
        return rc
    rc = stepcheck.replay_file(path, workdir('C19_replay'))
    if rc: log('VIOLATION property=C19 replay=%s' % path)
    return rc
