"""C15 -- Data <-> JSON.
(a) contrib/src/jsmn/jsmn.c (Route A): memory safety, termination, post-condition, all inputs <= JL bytes
(b) Data::jsonEscape / jsonUnescape (Route B) + real jsmn: round trip and tokenizer acceptance, all byte strings <= EL
"""
import os, re, json
from common import *

JSMN = REPO + '/contrib/src/jsmn/jsmn.c'


def cid(s):
    return re.sub(r'[^A-Za-z0-9_]', lambda m: '_%02x' % ord(m.group()), s)


def build_b(chk, W):
    native_build(['lib/libuscxml.so'])
    clang_ir(REPO + '/src/uscxml/messages/Data.cpp', W + '/Data.ll')
    esc = mangled(W + '/Data.ll', r'Data10jsonEscape')[0]
    une = mangled(W + '/Data.ll', r'Data12jsonUnescape')[0]
    ir2c(W + '/Data.ll', [esc, une], W + '/esc.c', models=[VERIF + '/models/strmodels.txt'])
    chk.functions += ['uscxml::Data::jsonEscape (Data.cpp)', 'uscxml::Data::jsonUnescape (Data.cpp)']
    return W + '/esc.c', 'f_' + cid(esc), 'f_' + cid(une)


def tv_b(chk, W, genc, fe, fu, seed):
    sh(['gcc', '-O1', '-w', '-c', VERIF + '/harness/c15_glue.c', '-o', W + '/glue.o', '-I' + VERIF + '/models',
        '-DGENC="%s"' % genc, '-DFN_ESC=' + fe, '-DFN_UNESC=' + fu, '-DSCAP=64'])
    native_compile([VERIF + '/harness/c15_native.cpp', W + '/glue.o'], W + '/c15_native')
    p = sh([W + '/c15_native', 'tv', str(seed)], env=lib_env(), check=False, timeout=600)
    m = re.search(r'tv cases=(\d+) mismatches=(\d+)', p.stdout)
    if not m or int(m.group(2)) != 0 or p.returncode != 0:
        chk.infra_problem('translation validation failed (jsonEscape/jsonUnescape): ' + p.stdout[-1500:])
        return False
    chk.tv_cases += int(m.group(1))
    return True


def run(tier, seed):
    chk = Check('C15', tier, seed)
    W = workdir('C15')
    JL, EL = (5, 2) if tier == 'quick' else (7, 3)
    tmo = 1200 if tier == 'quick' else 14400
    genc, fe, fu = build_b(chk, W)
    tv_b(chk, W, genc, fe, fu, seed)
    chk.functions += ['jsmn_parse, jsmn_parse_string, jsmn_parse_primitive, jsmn_alloc_token, jsmn_fill_token, jsmn_init (contrib/src/jsmn/jsmn.c, as is)']
    chk.bounds = {'jsmn_input_bytes_max': JL, 'jsmn_token_budget': '0..len (Data::fromJSON passes len/8, len/4, len/2, len)',
                  'escape_input_bytes_max': EL, 'escape_alphabet': 'all 256 byte values'}
    chk.assumptions += ['jsmn harness: input is a NUL-terminated buffer of 1..%d non-NUL bytes; token array has N+1 zeroed entries as in Data::fromJSON' % JL,
                        'std::string / std::stringstream replaced by ADT models (models/strmodel.c)',
                        'no malloc failure (--no-malloc-may-fail): allocation failure is outside the property']
    chk.outside += ['longer inputs', 'Data::fromJSON token walk and Data::toJSON (maps/lists of Data): not yet encoded',
                    'textual form of JSON numbers (no floating point encoded)', 'Event <-> Data conversion']
    jinc = [VERIF + '/spec', REPO + '/contrib/src/jsmn', VERIF + '/models']
    jobs = []
    for wit in (False, True):
        jobs.append(('jsmn', VERIF + '/harness/c15_jsmn.c', ['JSMN_C="%s"' % JSMN, 'JL=%d' % JL] + (['WITNESS'] if wit else []),
                     ['--unwind', str(JL + 3)], wit))
        jobs.append(('esc', VERIF + '/harness/c15_esc.c', ['GENC="%s"' % genc, 'JSMN_C="%s"' % JSMN, 'FN_ESC=' + fe, 'FN_UNESC=' + fu, 'EL=%d' % EL] + (['WITNESS'] if wit else []),
                     ['--unwind', str(2 * EL + 6)], wit))

    def job(j):
        return cbmc(j[1], j[3], j[2], timeout=tmo, includes=jinc, mem_gb=24)
    res = pmap(job, jobs)
    byname = {}
    for j, r in zip(jobs, res):
        byname[(j[0], j[4])] = (j, r)
    for name in ('jsmn', 'esc'):
        j, r = byname[(name, False)]
        w = byname[(name, True)][1]
        chk.query(name, r, bound=('JL=%d' % JL) if name == 'jsmn' else ('EL=%d' % EL), witness=w)
        if w.status != 'failed':
            chk.infra_problem('%s: reachability witness not violated (%s)' % (name, w.status))
        if r.status == 'success':
            continue
        if r.status != 'failed':
            chk.infra_problem('%s: no verdict (%s) within %ds' % (name, r.status, tmo)); continue
        bad = [d for n, d in r.failed if 'unwinding' in d or 'INCONCLUSIVE' in d or 'BOUND' in d]
        real = [d for n, d in r.failed if d not in bad]
        if bad and not real:
            chk.infra_problem('%s: inconclusive: %s' % (name, bad[:4])); continue
        # a violated property inside the unwound part is a genuine counterexample even if some loop would run longer
        rt = cbmc(j[1], j[3], j[2], timeout=tmo, includes=jinc, mem_gb=24, trace=True)
        v = trace_values(rt.out)
        if name == 'esc':
            n = trace_int(v.get('cex_n', '0')); s = trace_array(v, 'cex_s', EL)[:n]
            p = sh([W + '/c15_native', 'esc', ''.join('%02x' % b for b in s)], env=lib_env(), check=False)
            chk.replays_native += 1
            m = re.search(r'roundtrip=(\d) jsmn_ok=(\d)', p.stdout)
            has_nul = 0 in s
            if m and (m.group(1) == '0' or (m.group(2) == '0' and not has_nul)):
                path = chk.write_replay('esc', {'kind': 'esc', 'input_hex': ''.join('%02x' % b for b in s), 'native': p.stdout.strip()})
                chk.violation('jsonEscape/jsonUnescape/jsmn round trip fails for bytes %r: %s' % (bytes(s), p.stdout.strip()), path)
            else:
                chk.infra_problem('SPURIOUS esc counterexample %r: %s ; failed: %s' % (bytes(s), p.stdout.strip(), [d for _, d in r.failed][:3]))
        else:
            ln = trace_int(v.get('cex_len', '0')); js = trace_array(v, 'cex_js', JL)[:ln]; N = trace_int(v.get('cex_n', '0'))
            # jsmn.c is plain C: replay = compile the same harness natively with the concrete input under ASan/UBSan
            path = chk.write_replay('jsmn', {'kind': 'jsmn', 'input_hex': ''.join('%02x' % (b & 255) for b in js), 'num_tokens': N,
                                             'failed': [d for _, d in r.failed]})
            ok = replay_jsmn(W, js, N)
            chk.replays_native += 1
            if ok:
                chk.infra_problem('jsmn counterexample did not reproduce natively (pointer-model only?): %r N=%d %s' % (bytes(b & 255 for b in js), N, [d for _, d in r.failed][:3]))
            else:
                chk.violation('jsmn_parse on %r with %d tokens: %s' % (bytes(b & 255 for b in js), N, [d for _, d in r.failed][:3]), path)
    chk.samples += [{'query': 'jsmn', 'symbolic': 'js[0..%d) arbitrary non-NUL bytes, len in 1..%d, num_tokens in 0..len' % (JL, JL)},
                    {'query': 'esc', 'symbolic': 's[0..%d) arbitrary bytes (256 values), len in 0..%d' % (EL, EL)}]
    return chk.finish()


def replay_jsmn(W, js, N):
    """Run the real jsmn.c natively (ASan+UBSan) on a concrete input and check the post-condition. True = fine."""
    src = W + '/jsmn_replay.c'
    open(src, 'w').write(r'''
#include "%s"
#include "jsmn_post.h"
#include <stdio.h>
#include <string.h>
int main(void) { const char js_[] = {%s 0}; unsigned N = %d; unsigned L = sizeof js_ - 1;
  char* js = malloc(L + 1); memcpy(js, js_, L + 1);
  jsmntok_t* t = calloc(N + 1, sizeof(jsmntok_t)); jsmn_parser p; jsmn_init(&p);
  int rv = jsmn_parse(&p, js, t, N);
  int ok = jsmn_post(rv, t, N, p.toknext, L) && p.pos <= L;
  printf("rv=%%d ok=%%d\n", rv, ok); return ok ? 0 : 1; }
''' % (JSMN, ''.join('%d,' % (b if b < 128 else b - 256) for b in js), N))
    sh(['gcc', '-g', '-fsanitize=address,undefined', '-fno-sanitize-recover=all', '-I' + VERIF + '/spec', '-I' + REPO + '/contrib/src/jsmn', src, '-o', W + '/jsmn_replay'])
    p = sh([W + '/jsmn_replay'], check=False)
    return p.returncode == 0


def do_replay(path):
    W = workdir('C15', clean=False)
    r = json.load(open(path))
    if r['kind'] == 'jsmn':
        ok = replay_jsmn(W, list(bytes.fromhex(r['input_hex'])), r['num_tokens'])
    else:
        chk = Check('C15', 'quick', 0)
        genc, fe, fu = build_b(chk, W); tv_b(chk, W, genc, fe, fu, 0)
        p = sh([W + '/c15_native', 'esc', r['input_hex']], env=lib_env(), check=False)
        log(p.stdout.strip())
        m = re.search(r'roundtrip=(\d) jsmn_ok=(\d)', p.stdout)
        ok = bool(m) and m.group(1) == '1' and (m.group(2) == '1' or '00' in re.findall('..', r['input_hex']))
    if not ok:
        log('VIOLATION property=C15 replay=%s' % path)
        return 1
    return 0
