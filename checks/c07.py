"""C07 -- interpreter engines (and, where the property has one, its emitted-C half): see engine/enginecheck.py."""
from common import *
import enginecheck


def run(tier, seed):
    chk = Check('C07', tier, seed)
    W = workdir('C07')
    enginecheck.run_engines(chk, 'C07', W, tier, seed + 7, 2)
    return chk.finish()


def do_replay(path):
    return enginecheck.do_replay('C07', path)
