"""C07 -- a failing element of executable content skips only the rest of its own block.
 (a) interpreter engines: tagged assertions of the engine harness (engine/enginecheck.py, mask T_ERR)
 (b) emitted ANSI-C: differential use of the C04 step harness -- for every document the behaviour query is run once
     with no failing element (NO_FAIL) and once with a symbolic failure pattern over every onentry/onexit/transition
     block; where the first holds, every difference the second one finds is caused by how a failure is handled
     (the reference skips the rest of the failing block and nothing else) and is replayed on the compiled machine."""
from common import *
import enginecheck, stepcheck


def run(tier, seed):
    chk = Check('C07', tier, seed)
    W = workdir('C07')
    enginecheck.run_engines(chk, 'C07', W, tier, seed + 7, 2)
    native_build(['bin/uscxml-transform'])
    sr = stepcheck.StepRun(chk, W, tier)
    prepared = sr.prepare(sr.filter_known(stepcheck.documents(tier, seed + 7), ('C04', 'C07')))
    tmo = 420 if tier == 'quick' else 3600
    queries = [dict(name='nofail', mode=1, variant=1, defs=('NO_FAIL',)), dict(name='failures', mode=1, variant=1, witness=True, baseline='nofail')]
    sr.run(prepared, queries, tmo, 'C07')
    chk.functions += ['uscxml_step and every emitted *_on_entry / *_on_exit / *_on_trans function (this run\'s output of uscxml-transform -tc), with exec_content_log failing per block under solver control']
    chk.assumptions += ['emitted C: a violation is reported only for documents whose failure-free behaviour query holds (differential); other documents are listed under differential_skipped']
    return chk.finish()


def do_replay(path):
    import json
    r = json.load(open(path))
    if r.get('kind') == 'emitted-c-step':
        rc = stepcheck.replay_file(path, workdir('C07', clean=False))
        if rc: log('VIOLATION property=C07 replay=%s' % path)
        return rc
    return enginecheck.do_replay('C07', path)
