"""C14 (part a) -- the Base64 layer under FastMicroStep::toBase64/fromBase64 and the Data blob encoding:
the real src/uscxml/util/Base64.c under CBMC (Route A), with the buffer sizes uscxml::base64Encode/base64Decode use.
  mode 1  base64_decode_block on every input of exactly LEN bytes: memory safety, termination
  mode 2  decode(encode(x)) == x for every byte string of exactly LEN bytes"""
import os, re, json
from common import *

B64C = REPO + '/src/uscxml/util/Base64.c'
B64H = REPO + '/src/uscxml/util/Base64.hpp'


def sizes():
    t = open(B64H).read()
    md = re.search(r'base64Decode\(.*?char\* out = \(char\*\)malloc\(([^;]*)\);', t, re.S)
    me = re.search(r'base64Encode\(.*?char\* out = \(char\*\)malloc\(([^;]*)\);', t, re.S)
    if not md or not me:
        raise InfraError('cannot find the buffer size expressions in Base64.hpp')
    dec = md.group(1).replace('data.size()', '(n)')
    enc = me.group(1)
    if not re.fullmatch(r'[\w\s+*/().-]+', dec) or not re.fullmatch(r'[\w\s+*/().-]+', enc):
        raise InfraError('unexpected buffer size expression: %r %r' % (dec, enc))
    return dec, enc


def query(mode, ln, dec, enc, witness=False, timeout=300, trace=False):
    encsize = int(eval(enc, {'len': ln}))
    defs = ['BASE64_C="%s"' % B64C, 'MODE=%d' % mode, 'LEN=%d' % ln, 'USCXML_API=', 'DEC_SIZE(n)=(%s)' % dec, 'ENC_SIZE=%d' % encsize] + (['WITNESS'] if witness else [])
    unw = (ln if mode == 1 else 4 * ((ln + 2) // 3)) + 3       # every loop consumes at least one input / output character per iteration
    return cbmc(VERIF + '/harness/c14_base64.c', ['--unwind', str(unw)], defs, includes=[REPO + '/src/uscxml/util'], timeout=timeout, trace=trace, mem_gb=16)


def native_replay(W, mode, ln, dec, enc, data):
    encsize = int(eval(enc, {'len': ln}))
    src = os.path.join(W, 'b64_replay.c')
    open(src, 'w').write('''#include <stdio.h>
static const char rv[] = {%s 0}; static int rp = 0, rp_fail = 0;
char nondet_char(void) { return rv[rp++]; }
#define __CPROVER_assert(c, msg) do { if (!(c)) { printf("REPLAY-FAIL: %%s\\n", msg); rp_fail = 1; } } while (0)
#define main harness_main
#include "%s/harness/c14_base64.c"
#undef main
int main(void) { harness_main(); return rp_fail; }
''' % (''.join('%d,' % (b if b < 128 else b - 256) for b in data), VERIF))
    exe = os.path.join(W, 'b64_replay')
    sh(['gcc', '-g', '-w', '-fsanitize=address,undefined', '-fno-sanitize-recover=all', '-I' + REPO + '/src/uscxml/util', '-DBASE64_C="%s"' % B64C, '-DMODE=%d' % mode, '-DLEN=%d' % ln,
        '-DUSCXML_API=', '-DDEC_SIZE(n)=(%s)' % dec, '-DENC_SIZE=%d' % encsize, src, '-o', exe])
    p = sh([exe], check=False)
    return p.returncode != 0, p.stdout[-1200:]


def run(tier, seed):
    chk = Check('C14', tier, seed)
    W = workdir('C14')
    dec, enc = sizes()
    L1 = list(range(0, 7 if tier == 'quick' else 13))
    L2 = list(range(0, 4 if tier == 'quick' else 10))
    jobs = [(1, l, False) for l in L1] + [(2, l, False) for l in L2] + [(1, 3, True), (2, 2, True)]
    tmo = 600 if tier == 'quick' else 7200
    res = pmap(lambda j: query(j[0], j[1], dec, enc, witness=j[2], timeout=tmo), jobs)
    wit = {j[0]: r for j, r in zip(jobs, res) if j[2]}
    for m, w in wit.items():
        if w.status != 'failed': chk.infra_problem('mode %d: reachability witness not violated (%s)' % (m, w.status))
    for j, r in zip(jobs, res):
        if j[2]: continue
        mode, ln, _ = j
        chk.query('mode%d/len%d' % (mode, ln), r, bound='exactly %d bytes, all 256 values' % ln, witness=wit[mode])
        if r.status == 'success': continue
        if r.status != 'failed':
            chk.infra_problem('mode %d len %d: no verdict (%s)' % (mode, ln, r.status)); continue
        props = sorted(set(d for n, d in r.failed))
        real = [d for d in props if 'unwinding' not in d]
        if not real:
            chk.infra_problem('mode %d len %d: inconclusive (unwinding)' % (mode, ln)); continue
        rt = query(mode, ln, dec, enc, timeout=tmo, trace=True)
        v = trace_values(rt.out)
        data = [trace_int(v.get('cex_in[%d]' % i, '0')) & 255 for i in range(ln)]
        bad, out = native_replay(W, mode, ln, dec, enc, data)
        chk.replays_native += 1
        what = 'Base64 %s on bytes %r: %s' % ('decode' if mode == 1 else 'encode/decode round trip', bytes(data), real[:3])
        if not bad:
            # single-element over-reads of a static table are not always flagged by ASan (global redzones are, but be explicit)
            chk.extra.setdefault('cbmc_only_memory_findings', []).append(what)
            chk.infra_problem('CBMC memory-safety failure not confirmed by the ASan/UBSan replay: ' + what); continue
        path = chk.write_replay('mode%d_len%d' % (mode, ln), {'mode': mode, 'len': ln, 'data': data, 'native': out})
        chk.violation(what, path)
    chk.functions += ['base64_decode_value, base64_decode_block, base64_init_decodestate, base64_encode_value, base64_encode_block, base64_encode_blockend, base64_init_encodestate (src/uscxml/util/Base64.c, as is)',
                      'buffer size expressions of uscxml::base64Encode / base64Decode (extracted from Base64.hpp on this run)']
    chk.bounds = {'decode_input_bytes': L1, 'roundtrip_input_bytes': L2}
    chk.assumptions += ['only the Base64 layer of the serialised engine state / blobs is decided; fresh encoder/decoder state per call as the C++ wrappers create it', 'no malloc failure']
    chk.outside += ['InterpreterImpl::serialize/deserialize (DOM, datamodel, MD5)', 'FastMicroStep::toBase64/fromBase64 over dynamic_bitset, LargeMicroStep index lists, Event <-> Data, queue serialisation',
                    'behavioural equality of a resumed interpreter', 'inputs longer than the bound']
    chk.samples += [{'query': 'mode1', 'symbolic': 'LEN arbitrary bytes into base64_decode_block'}, {'query': 'mode2', 'symbolic': 'LEN arbitrary bytes through encode + blockend + decode'}]
    return chk.finish()


def do_replay(path):
    r = json.load(open(path))
    dec, enc = sizes()
    bad, out = native_replay(workdir('C14_replay'), r['mode'], r['len'], dec, enc, r['data'])
    log(out)
    if bad:
        log('VIOLATION property=C14 replay=%s' % path); return 1
    return 0
