"""C05 -- structural tables: emitted C (text of this run's uscxml-transform -tc output) and the tables the real
FastMicroStep::init builds (native dump), against the relations REF derives from the structural facts."""
import os, re, random, json
from common import *
import chartgen, genc, engines, stepcheck


def masks_from_c(path, ns, nt):
    txt = open(path).read()
    def bytes2mask(s):
        m = 0
        for k, b in enumerate(re.findall(r'0x([0-9a-fA-F]{2})', s)):
            m |= int(b, 16) << (8 * k)
        return m
    sm = re.search(r'static const uscxml_state \w+__states\[\d+\] = \{(.*?)\n\};', txt, re.S)
    S = []
    for e in re.finditer(r'/\* parent\s+\*/ (\d+),.*?/\* children\s+\*/ \{([^}]*)\},\s*/\* completion \*/ \{([^}]*)\},\s*/\* ancestors\s+\*/ \{([^}]*)\},.*?/\* type\s+\*/ ([^,\n]+),', sm.group(1), re.S):
        ty = e.group(5)
        code = {'ATOMIC': 1, 'PARALLEL': 2, 'COMPOUND': 3, 'FINAL': 4, 'HISTORY_DEEP': 5, 'HISTORY_SHALLOW': 6, 'INITIAL': 7}
        tv = 0
        for w in re.findall(r'USCXML_STATE_(\w+)', ty):
            tv |= 0x80 if w == 'HAS_HISTORY' else code[w]
        S.append(dict(parent=int(e.group(1)), children=bytes2mask(e.group(2)), completion=bytes2mask(e.group(3)), ancestors=bytes2mask(e.group(4)), type=tv))
    T = []
    tm = re.search(r'static const uscxml_transition \w+__transitions\[\d+\] = \{(.*?)\n\};', txt, re.S)
    if tm:
        for e in re.finditer(r'/\* source\s+\*/ (\d+),\s*/\* target\s+\*/ (\{[^}]*\}|NULL),.*?/\* type\s+\*/ ([^,\n]+),\s*/\* conflicts\s+\*/ \{([^}]*)\},\s*/\* exit set\s+\*/ \{([^}]*)\}', tm.group(1), re.S):
            fl = {'SPONTANEOUS': 1, 'TARGETLESS': 2, 'INTERNAL': 4, 'HISTORY': 8, 'INITIAL': 16}
            tv = 0
            for w in re.findall(r'USCXML_TRANS_(\w+)', e.group(3)): tv |= fl[w]
            T.append(dict(source=int(e.group(1)), target=bytes2mask(e.group(2)) if e.group(2) != 'NULL' else 0, type=tv, conflicts=bytes2mask(e.group(4)), exit=bytes2mask(e.group(5))))
    if len(S) != ns or len(T) != nt:
        raise InfraError('parsed %d/%d states and %d/%d transitions from %s' % (len(S), ns, len(T), nt, path))
    return S, T


def prepare(c, W):
    gc, fh = genc.prepare(c, W, c.name)
    ns, nt = len(c.nodes), len(c.trans)
    em = genc.parse_emitted_c(gc)
    sm_c = genc.smap(c, em); tm_c = genc.tmap(c, em, sm_c)
    S_c, T_c = masks_from_c(gc, ns, nt)
    S_f, T_f, meta = engines.dump('fast', os.path.join(W, c.name + '.scxml'))
    sm_f, tm_f = engines.maps(c, S_f, T_f)
    def exitmask(t): 
        a, b = int(t.get('exitfirst', 0)), int(t.get('exitlast', 0))
        return 0 if a == 0 else sum(1 << x for x in range(a, b + 1))
    subj = [
        dict(name='emitted C', childmode=0, smap=sm_c, tmap=tm_c, parent=[s['parent'] for s in S_c], type=[s['type'] for s in S_c], children=[s['children'] for s in S_c],
             completion=[s['completion'] for s in S_c], ancestors=[s['ancestors'] for s in S_c], tsource=[t['source'] for t in T_c], ttarget=[t['target'] for t in T_c],
             ttype=[t['type'] for t in T_c], texit=[t['exit'] for t in T_c], tconf=[t['conflicts'] for t in T_c]),
        dict(name='FastMicroStep::init', childmode=1, smap=sm_f, tmap=tm_f, parent=[int(s['parent']) for s in S_f], type=[int(s['type']) for s in S_f], children=[int(s['children']) for s in S_f],
             completion=[int(s['completion']) for s in S_f], ancestors=[int(s['ancestors']) for s in S_f], tsource=[int(t['source']) for t in T_f], ttarget=[int(t['target']) for t in T_f],
             ttype=[int(t['type']) for t in T_f], texit=[exitmask(t) for t in T_f], tconf=[int(t['conflicts']) for t in T_f]),
    ]
    th = os.path.join(W, c.name + '_tables.h')
    with open(th, 'w') as f:
        f.write('#define NSUBJ %d\n' % len(subj))
        def arr2(name, key, n):
            f.write('static const unsigned TB_%s[NSUBJ][%d] = {%s};\n' % (name, max(1, n), ', '.join('{' + (', '.join('0x%xu' % v for v in s[key]) or '0') + '}' for s in subj)))
        for name, n in (('smap', ns), ('parent', ns), ('type', ns), ('children', ns), ('completion', ns), ('ancestors', ns)): arr2(name, name, ns)
        for name in ('tmap', 'tsource', 'ttarget', 'ttype', 'texit', 'tconf'): arr2(name, name, nt)
        f.write('static const unsigned TB_childmode[NSUBJ] = {%s};\n' % ', '.join(str(s['childmode']) for s in subj))
    # the exit sets of the engines are intervals of *proper* states in the engine's numbering; restrict to proper states when comparing
    return dict(fh=fh, th=th, subjects=[s['name'] for s in subj])


def query(p, witness=False, timeout=300, trace=False):
    defs = ['FACTS="%s"' % p['fh'], 'FACTS_PRE="%s"' % p['fh'].replace('_facts.h', '_pre.h'), 'TABLES="%s"' % p['th']] + (['WITNESS'] if witness else [])
    return cbmc(VERIF + '/harness/c05_tables.c', ['--unwind', '40'], defs, includes=[VERIF + '/spec'], timeout=timeout, trace=trace)


def run(tier, seed):
    chk = Check('C05', tier, seed)
    W = workdir('C05')
    native_build(['bin/uscxml-transform', 'lib/libuscxml.so'])
    docs = [c for _, c in stepcheck.documents(tier, seed + 5, n_random=30 if tier == 'quick' else 400, n_corpus=10 if tier == 'quick' else 90)]
    docs = chartgen.structural_charts() + docs
    docs = [c for c in docs if not stepcheck.excluded_by_finding(c, ('C05', 'C02'))]
    def job(c):
        try:
            p = prepare(c, W)
        except InfraError as e:
            return (c, None, str(e)[:300], None)
        return (c, p, query(p), query(p, witness=True) if c.name.startswith('feat') else None)
    n = 0
    for c, p, r, w in pmap(job, docs):
        if p is None:
            chk.extra.setdefault('documents_not_prepared', []).append({'doc': c.name, 'why': r}); continue
        n += 1
        chk.query(c.name, r, bound='%d states, %d transitions, 2 subjects' % (len(c.nodes), len(c.trans)), witness=w, note=c.describe()[:160])
        if w is not None and w.status != 'failed': chk.infra_problem('%s: witness not violated' % c.name)
        if r.status == 'success': continue
        if r.status != 'failed':
            chk.extra.setdefault('no_verdict', []).append(c.name); continue
        props = sorted(set(d for n_, d in r.failed))
        rt = query(p, trace=True); v = trace_values(rt.out)
        idx = {k: trace_int(v.get('cex_' + k, '0')) for k in 'kijtu'}
        # the tables are constants extracted from the real output: the counterexample is concrete data, re-read it natively
        path = chk.write_replay(c.name, {'kind': 'tables', 'doc': c.name, 'scxml': c.to_xml(), 'subject': p['subjects'][idx['k']], 'indices': idx, 'failed': props})
        chk.violation('%s [%s]: %s table of %s at indices %s' % (c.name, c.describe()[:140], props[:2], p['subjects'][idx['k']], idx), path)
    chk.functions += ['ChartToC::prepare / setStateCompletion / setHistoryCompletion / writeStates / writeTransitions (through the emitted text)', 'Predicates.cpp getTransitionDomain / getExitSet / conflicts (through the emitted tables)',
                      'FastMicroStep::init (tables dumped natively from the real object)']
    chk.bounds = {'documents': n, 'indices': 'all (subject, state i, state j, transition t, transition u) tuples, chosen by the solver'}
    chk.assumptions += ['tables are extracted from this run\'s emitted C text and from a native dump of the real init(); the solver\'s part is the index quantifier, the quantifier over documents is enumeration',
                        'conflict relation compared for ordinary transitions only; HAS_HISTORY type flag not compared; documents with a history nested below a deep history are outside (known finding of C02)']
    chk.outside += ['Promela init{} tables and the -a annotated document', 'postFixOrder numbering', 'LargeMicroStep tables']
    chk.samples += [{'doc': c.name, 'shape': c.describe()[:160]} for c in docs[:10]]
    return chk.finish()


def do_replay(path):
    r = json.load(open(path))
    W = workdir('C05_replay')
    native_build(['bin/uscxml-transform', 'lib/libuscxml.so'])
    sx = os.path.join(W, 'doc.scxml'); open(sx, 'w').write(r['scxml'])
    c = chartgen.from_scxml(sx, name='rp')
    p = prepare(c, W)
    q = query(p)
    log('%s %s' % (q.status, sorted(set(d for n, d in q.failed))[:4]))
    if q.status == 'failed':
        log('VIOLATION property=C05 replay=%s' % path); return 1
    return 0
