"""C03 -- interpreter engines (and, where the property has one, its emitted-C half): see engine/enginecheck.py."""
from common import *
import enginecheck


def run(tier, seed):
    chk = Check('C03', tier, seed)
    W = workdir('C03')
    enginecheck.run_engines(chk, 'C03', W, tier, seed + 3, 63, batches_per_doc=14 if tier == 'quick' else 200)
    return chk.finish()


def do_replay(path):
    return enginecheck.do_replay('C03', path)
