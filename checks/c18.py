"""C18 -- the combinational micro-step equations emitted by uscxml-transform -tvhdl equal the step algorithm
(reference model, transpilers' conflict relation) for every legal configuration, event and condition valuation."""
import os, re, random, json
from common import *
import chartgen, genc, vhdl

POOL = ['ea', 'eb', 'ec']


def vhdl_chart(rng, i, max_states):
    c = chartgen.random_chart(rng, max_states=max_states, max_trans=6, p_hist=0.0, p_initial_elem=0.0, p_content=0.0, p_invoke=0.0, name='vh%d' % i)
    for n in c.nodes:
        n.n_onentry = n.n_onexit = 0
        if n.initial_attr and (len(n.initial_attr) != 1 or n.initial_attr[0].parent is not n):
            n.initial_attr = [n.initial_attr[0]] if n.initial_attr[0].parent is n else None    # the back end only handles initial="<one direct child>"
        used, evl = set(), False
        keep = []
        for t in n.trans:
            t.content = False
            if t.event:
                free = [e for e in POOL if e not in used]
                if not free: continue
                t.evname = rng.choice(free); used.add(t.evname)
            else:
                if evl: continue
                evl = True; t.evname = None
            keep.append(t)
        n.trans = keep
    c.index()
    return c


def to_xml(c):
    x = c.to_xml(with_content=False)
    for t in c.trans:
        if t.event:
            x = x.replace('event="e%d"' % t.idx, 'event="%s"' % t.evname)
    return x


def prepare(c, W):
    tag = c.name
    sx = os.path.join(W, tag + '.scxml'); open(sx, 'w').write(to_xml(c))
    vp = genc.transform('vhdl', sx, os.path.join(W, tag + '.vhdl'))
    eqs = vhdl.parse(vp)
    inputs, order = vhdl.emit_c(eqs, os.path.join(W, tag + '_vhdl.c'))
    ns, nt = len(c.nodes), len(c.trans)
    # VHDL transition index -> chart transition
    vidx = {}
    for name, body in eqs.items():
        m = re.fullmatch(r'in_optimal_transition_set_(\d+)_sig', name)
        if not m: continue
        src = re.search(r'state_active_(\d+)_sig', body)
        ev = re.search(r'\bevent_(\w+?)_sig\b', body)
        if not src: raise InfraError('%s: no source in %s' % (tag, name))
        cands = [t.idx for t in c.trans if t.src.idx == int(src.group(1)) and ((t.event and ev and t.evname == ev.group(1)) or (not t.event and not ev))]
        if len(cands) != 1: raise InfraError('%s: cannot identify VHDL transition %s (source %s event %s): %s' % (tag, m.group(1), src.group(1), ev and ev.group(1), cands))
        vidx[cands[0]] = int(m.group(1))
    if sorted(vidx) != list(range(nt)): raise InfraError('%s: VHDL transition map incomplete: %s' % (tag, vidx))
    for s in range(1, ns):
        for sig in ('state_next_%d_sig', 'in_exit_set_%d_sig', 'in_entry_set_%d_sig'):
            if (sig % s) not in eqs: raise InfraError('%s: signal %s missing in the emitted VHDL' % (tag, sig % s))
    glue = os.path.join(W, tag + '_glue.h')
    with open(glue, 'w') as f:
        f.write('#define N_EVENTS %d\n' % len(POOL))
        f.write('static const signed char TEVENT[%d] = {%s};\n' % (max(1, nt), ', '.join(str(POOL.index(t.evname)) if t.event else '-1' for t in c.trans) or '-1'))
        f.write('static void set_inputs(rset conf, int ev, const unsigned char* cond) {\n')
        for n in inputs:
            m = re.fullmatch(r'state_active_(\d+)_sig', n)
            if m: f.write('  %s = (int)RHAS(conf, %s);\n' % (n, m.group(1))); continue
            m = re.fullmatch(r'event_(\w+)_sig', n)
            if m: f.write('  %s = (ev == %d);\n' % (n, POOL.index(m.group(1)))); continue
            m = re.fullmatch(r'transition_condition_fulfilled_(\d+)_i', n)
            if m:
                ref = [k for k, v in vidx.items() if v == int(m.group(1))][0]
                f.write('  %s = cond[%d];\n' % (n, ref)); continue
            if n == 'spontaneous_en': f.write('  spontaneous_en = (ev < 0);\n'); continue
            f.write('  %s = 0;\n' % n)        # in_complete_entry_set_0_sig (only set at reset), completed_sig
        f.write('}\n')
        def sw(fn, pat, keys):
            f.write('static int %s(int i) { switch (i) { %s default: return 0; } }\n' % (fn, ' '.join('case %d: return %s;' % (k, pat % v) for k, v in keys)))
        sw('get_next', 'state_next_%d_sig', [(s, s) for s in range(1, ns)])
        sw('get_exit', 'in_exit_set_%d_sig', [(s, s) for s in range(1, ns)])
        sw('get_entry', 'in_entry_set_%d_sig', [(s, s) for s in range(1, ns)])
        sw('get_opt', 'in_optimal_transition_set_%d_sig', sorted(vidx.items()))
    proper = sum(1 << n.idx for n in c.nodes)
    fh = os.path.join(W, tag + '_facts.h')
    with open(fh, 'w') as f:
        f.write(c.facts_c('CH')); f.write('#define PROPER_MASK 0x%xu\n' % proper)
    with open(fh.replace('_facts.h', '_pre.h'), 'w') as f:
        f.write('#define R_MAXACT 8\n#define R_MAXS %d\n#define R_MAXT %d\n' % (ns, max(1, nt)))
    return dict(vc=os.path.join(W, tag + '_vhdl.c'), glue=glue, fh=fh, equations=len(eqs), inputs=inputs)


def query(p, witness=False, timeout=300, trace=False):
    defs = ['FACTS="%s"' % p['fh'], 'FACTS_PRE="%s"' % p['fh'].replace('_facts.h', '_pre.h'), 'VHDL_C="%s"' % p['vc'], 'GLUE="%s"' % p['glue']] + (['WITNESS'] if witness else [])
    return cbmc(VERIF + '/harness/c18_vhdl.c', ['--unwind', '40'], defs, includes=[VERIF + '/spec'], timeout=timeout, trace=trace)


def native_replay(p, W, tag, conf, ev, cond):
    src = os.path.join(W, tag + '_replay.c')
    open(src, 'w').write('''#include <stdio.h>
#include <stdlib.h>
static unsigned rv_conf = %uu; static int rv_ev = %d; static unsigned char rv_cond[] = {%s 0};
static int rp_fail = 0;
unsigned nondet_uint(void) { return rv_conf; } int nondet_int(void) { return rv_ev; }
static int rp_c = 0; unsigned char nondet_uchar(void) { return rv_cond[rp_c++]; }
#define __CPROVER_assume(c) do { if (!(c)) { printf("REPLAY: assumption violated\\n"); exit(3); } } while (0)
#define __CPROVER_assert(c, msg) do { if (!(c)) { printf("REPLAY-FAIL: %%s\\n", msg); rp_fail = 1; } } while (0)
#define main harness_main
#include "%s/harness/c18_vhdl.c"
#undef main
int main(void) { harness_main(); return rp_fail; }
''' % (conf, ev, ''.join('%d,' % x for x in cond), VERIF))
    exe = os.path.join(W, tag + '_replay')
    sh(['gcc', '-w', '-O0', '-DREPLAY_PRINT', '-I' + VERIF + '/spec', '-DFACTS="%s"' % p['fh'], '-DFACTS_PRE="%s"' % p['fh'].replace('_facts.h', '_pre.h'), '-DVHDL_C="%s"' % p['vc'], '-DGLUE="%s"' % p['glue'], src, '-o', exe])
    r = sh([exe], check=False)
    return re.findall(r'REPLAY-FAIL: (.*)', r.stdout), r.stdout


def run(tier, seed):
    chk = Check('C18', tier, seed)
    W = workdir('C18')
    native_build(['bin/uscxml-transform'])
    rng = random.Random(seed)
    n = 40 if tier == 'quick' else 600
    charts = [vhdl_chart(rng, i, 8 if tier == 'quick' else 14) for i in range(n)]
    kfs = known_findings('C18')
    def job(c):
        try:
            p = prepare(c, W)
        except InfraError as e:
            return (c, None, str(e)[:300], None)
        r = query(p, timeout=300 if tier == 'quick' else 1800)
        w = query(p, witness=True, timeout=300) if c.name.endswith(('0', '5')) else None
        return (c, p, r, w)
    nprep = 0
    for c, p, r, w in pmap(job, charts):
        if p is None:
            chk.extra.setdefault('documents_not_prepared', []).append({'doc': c.name, 'why': r}); continue
        nprep += 1
        chk.query(c.name, r, bound='%d states, %d transitions, %d equations' % (len(c.nodes), len(c.trans), p['equations']), witness=w, note=c.describe()[:160])
        if w is not None and w.status != 'failed':
            chk.infra_problem('%s: reachability witness not violated (%s)' % (c.name, w.status))
        if r.status == 'success': continue
        if r.status != 'failed':
            chk.extra.setdefault('no_verdict', []).append(c.name); continue
        props = sorted(set(d for n_, d in r.failed))
        if any('unwinding' in d for d in props):
            chk.infra_problem('%s: inconclusive (unwinding)' % c.name); continue
        rt = query(p, trace=True)
        v = trace_values(rt.out)
        conf = trace_int(v.get('cex_conf', '0')); ev = trace_int(v.get('cex_ev', '-1')); cond = trace_array(v, 'cex_cond', len(c.trans))
        fails, out = native_replay(p, W, c.name, conf, ev, cond)
        chk.replays_native += 1
        what = '%s [%s]: configuration 0x%x, %s, conditions %s: %s' % (c.name, c.describe()[:140], conf, 'spontaneous step' if ev < 0 else 'event ' + POOL[ev], cond, (fails or props)[:3])
        if not fails:
            chk.infra_problem('SPURIOUS counterexample: ' + what); continue
        # known findings are identified by the failing signal class + structural feature
        kf_hit = None
        for f in kfs:
            if chartgen.FINDING_PREDICATES.get(f.get('doc_predicate'), lambda c_: False)(c):
                kf_hit = f; break
        if kf_hit:
            chk.extra.setdefault('known_finding_instances', []).append({'doc': c.name, 'finding': kf_hit['id']})
            continue
        path = chk.write_replay(c.name, {'kind': 'vhdl', 'doc': c.name, 'scxml': to_xml(c), 'conf': conf, 'ev': ev, 'cond': cond, 'failed': fails})
        chk.violation(what, path)
    for f in kfs:
        if any(i['finding'] == f['id'] for i in chk.extra.get('known_finding_instances', [])):
            chk.known('%s: %s' % (f['id'], f['what']))
    if nprep < 0.7 * n:
        chk.infra_problem('only %d of %d generated documents could be transpiled / mapped' % (nprep, n))
    chk.functions += ['ChartToVHDL output: in_optimal_transition_set_*, spontaneous_active, in_exit_set_*, in_complete_entry_set(_up)_*, in_entry_set_*, state_next_* (parsed from the emitted text of this run)']
    chk.bounds = {'documents': nprep, 'chart_states_max': max(len(c.nodes) for c in charts), 'symbolic': 'configuration (legal), event (one of %d or spontaneous), all 2^k condition inputs' % len(POOL)}
    chk.assumptions += ['documents without history, <initial> elements, datamodel or executable content, initial attributes naming one direct child (the fragment the back end handles); seeded random family',
                        'one event at a time or spontaneous_en; in_complete_entry_set_0_sig (reset only) and completed_sig are 0',
                        'reference = spec/scxml_ref.h with the transpilers\' conflict relation (variant 1), as the property states']
    chk.outside += ['the clocked processes (event FIFO, registers), exit/entry handler sequencing', 'documents with history or datamodel']
    chk.samples += [{'doc': c.name, 'shape': c.describe()[:160]} for c in charts[:8]]
    return chk.finish()


def do_replay(path):
    r = json.load(open(path))
    W = workdir('C18_replay')
    native_build(['bin/uscxml-transform'])
    sx = os.path.join(W, 'doc.scxml'); open(sx, 'w').write(r['scxml'])
    c = chartgen.from_scxml(sx, name='rp')
    # recover event names
    import xml.etree.ElementTree as ET
    evs = [e.get('event') for e in ET.parse(sx).getroot().iter('{%s}transition' % chartgen.NS)]
    for t, e in zip(c.trans, evs): t.evname = e
    p = prepare(c, W)
    fails, out = native_replay(p, W, 'rp', r['conf'], r['ev'], r['cond'])
    log(out)
    if fails:
        log('VIOLATION property=C18 replay=%s' % path); return 1
    return 0
