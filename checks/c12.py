"""C12 -- event descriptor matching.

(a) uscxml::nameMatch (src/uscxml/util/String.cpp)           == recommendation 3.12.1, all well-formed inputs
(b) StateMachine::nameMatch (test/src/test-gen-c.cpp)        == (a) on all strings, == spec on well-formed ones
(c) statically resolved matches in -tpml / -tvhdl output     == spec   (checks/c12_static.py)
"""
import os, re, json, random, glob
from common import *

FN_A_M = '_ZN6uscxml9nameMatchERKNSt7__cxx1112basic_stringIcSt11char_traitsIcESaIcEEES7_'
FN_B_M = '_ZN12StateMachine9nameMatchERKNSt7__cxx1112basic_stringIcSt11char_traitsIcESaIcEEES7_'
ALPHA = 'abA.* '


def cid(s):
    return re.sub(r'[^A-Za-z0-9_]', lambda m: '_%02x' % ord(m.group()), s)


def harvest_descriptors():
    """event="..." attributes and raise/send event names from the repository's own test documents."""
    descs, names = set(), set()
    for f in glob.glob(REPO + '/test/w3c/*/*.scxml') + glob.glob(REPO + '/test/uscxml/**/*.scxml', recursive=True):
        try:
            t = open(f, errors='replace').read()
        except Exception:
            continue
        for m in re.finditer(r'<transition[^>]*\bevent="([^"]*)"', t):
            descs.add(m.group(1))
        for m in re.finditer(r'<(?:raise|send)[^>]*\bevent="([^"]*)"', t):
            names.add(m.group(1))
    return sorted(d for d in descs if 0 < len(d) < 20), sorted(n for n in names if 0 < len(n) < 20)


def build(chk, W):
    t_build = native_build(['lib/libuscxml.so', 'lib/libuscxml_transform.so'])
    lls = [clang_ir(REPO + '/src/uscxml/util/String.cpp', W + '/String.ll'),
           clang_ir(REPO + '/src/uscxml/util/Convenience.cpp', W + '/Convenience.ll'),
           clang_ir(REPO + '/test/src/test-gen-c.cpp', W + '/tgc.ll', extra=['-I' + REPO + '/test/src'])]
    llvm_link(lls, W + '/all.ll')
    ir2c(W + '/all.ll', [FN_A_M, FN_B_M], W + '/nm.c', models=[VERIF + '/models/strmodels.txt'])
    src = open(W + '/nm.c').read()
    if 'IR_UNMODELLED("' in src.split('/* ---- functions */')[1]:
        um = sorted(set(re.findall(r'IR_UNMODELLED\("([^"]+)"\)', src.split('/* ---- functions */')[1])))
        chk.extra['unmodelled_externals_present'] = um
    chk.functions += ['uscxml::nameMatch (String.cpp)', 'StateMachine::nameMatch (test/src/test-gen-c.cpp)',
                      'uscxml::iequals (Convenience.cpp)', 'boost::algorithm::iequals / is_iequal (header, translated)']
    chk.extra['generated_c_lines'] = src.count('\n')
    chk.extra['native_build_s'] = round(t_build, 1)
    return W + '/nm.c'


def translation_validation(chk, W, genc, seed):
    fa, fb = 'f_' + cid(FN_A_M), 'f_' + cid(FN_B_M)
    sh(['gcc', '-O1', '-w', '-c', VERIF + '/harness/c12_glue.c', '-o', W + '/glue.o', '-I' + VERIF + '/models',
        '-DGENC="%s"' % genc, '-DFN_A=' + fa, '-DFN_B=' + fb, '-DSCAP=40'])
    native_compile([VERIF + '/harness/c12_native.cpp', W + '/glue.o'], W + '/c12_native',
                   extra=['-I' + REPO + '/test/src', '-I' + VERIF + '/spec'], link_transform=True)
    descs, names = harvest_descriptors()
    rnd = random.Random(seed)
    with open(W + '/extra.tsv', 'w') as f:
        for d in descs:
            for n in names:
                f.write('%s\t%s\n' % (d, n))
        for _ in range(20000):
            d = ''.join(rnd.choice(ALPHA + 'c') for _ in range(rnd.randint(1, 12)))
            n = ''.join(rnd.choice('abA.c') for _ in range(rnd.randint(1, 9)))
            f.write('%s\t%s\n' % (d, n))
    p = sh([W + '/c12_native', 'tv', ALPHA, '4', '3', W + '/extra.tsv'], env=lib_env(), check=False, timeout=600)
    m = re.search(r'tv cases=(\d+) mismatches=(\d+)', p.stdout)
    if not m or p.returncode != 0 or int(m.group(2)) != 0:
        chk.infra_problem('translation validation failed: generated C disagrees with the real functions:\n' + p.stdout[-1500:])
        return False
    chk.tv_cases += int(m.group(1))
    chk.extra['tv_harvested_descriptors'] = len(descs)
    chk.extra['tv_harvested_event_names'] = len(names)
    return True


def hexs(bs):
    return ''.join('%02x' % b for b in bs)


def replay(W, d, e):
    p = sh([W + '/c12_native', 'replay', hexs(d) or '', hexs(e) or ''], env=lib_env(), check=False)
    m = re.search(r'real=(\d) scaffold=(\d) spec=(\d) wf=(\d)', p.stdout)
    if not m:
        raise InfraError('replay tool failed: ' + p.stdout)
    return dict(real=int(m.group(1)), scaffold=int(m.group(2)), spec=int(m.group(3)), wf=int(m.group(4)))


def run(tier, seed):
    chk = Check('C12', tier, seed)
    W = workdir('C12')
    genc = build(chk, W)
    tv_ok = translation_validation(chk, W, genc, seed)
    LD, LE = (5, 4) if tier == 'quick' else (7, 5)
    chk.bounds = {'descriptor_list_bytes_max': LD, 'event_name_bytes_max': LE, 'alphabet': ALPHA,
                  'unwind': LD + 3, 'string_model_capacity': 24}
    chk.assumptions += [
        'std::string is replaced by an ADT model (models/strmodel.c): heap buffer of fixed capacity, same observable '
        'semantics for size/substr/find/operator=/operator[]; exceeding the capacity fails a BOUND assertion',
        'std::locale / ctype<char> modelled as the "C" locale; isspace/tolower as in the C locale',
        'inputs are strings over the alphabet %r up to the stated lengths' % ALPHA,
        'mode 1/3 assume descriptor list and event name are well formed per Rec. 3.12.1 (spec/name_match.h)',
        'the generated C is validated against the g++-built functions on %d concrete inputs on every run' % chk.tv_cases]
    chk.outside += ['longer strings; characters outside the alphabet (checked concretely by the translation validation only)',
                    'InterpreterImpl::isMatched is a one-line forwarder to nameMatch and not separately encoded']
    fa, fb = 'f_' + cid(FN_A_M), 'f_' + cid(FN_B_M)
    inc = [VERIF + '/models', VERIF + '/spec']
    base_def = ['GENC="%s"' % genc, 'FN_A=' + fa, 'FN_B=' + fb, 'LD=%d' % LD, 'LE=%d' % LE]
    args = ['--unwind', str(LD + 3)]
    tmo = 900 if tier == 'quick' else 7200
    modes = [(1, 'nameMatch == spec (well-formed inputs)'), (2, 'nameMatch == scaffold nameMatch (all strings)'),
             (3, 'scaffold nameMatch == spec (well-formed inputs)')]
    jobs = []
    for mode, title in modes:
        jobs.append((mode, title, False))
        jobs.append((mode, title, True))

    def job(j):
        mode, title, wit = j
        defs = base_def + ['MODE=%d' % mode] + (['WITNESS'] if wit else [])
        return cbmc(VERIF + '/harness/c12_nm.c', args, defs, timeout=tmo, includes=inc)
    res = pmap(job, jobs)
    for (mode, title, wit), r in zip(jobs, res):
        if wit:
            continue
        w = [rr for (m2, _, w2), rr in zip(jobs, res) if m2 == mode and w2][0]
        chk.query('mode%d: %s' % (mode, title), r, bound='LD=%d LE=%d' % (LD, LE), witness=w)
        if w.status != 'failed':
            chk.infra_problem('mode %d: reachability witness not violated (%s): harness is vacuous' % (mode, w.status))
        if r.status == 'success':
            continue
        if r.status != 'failed':
            chk.infra_problem('mode %d: no verdict (%s) within %ds' % (mode, r.status, tmo))
            continue
        bad = [d for n, d in r.failed if not d.startswith('C12:')]
        if bad:
            # BOUND / unwinding / unmodelled: inconclusive, not a violation
            chk.infra_problem('mode %d: inconclusive, non-property assertions failed: %s' % (mode, bad[:4]))
            continue
        # get the counterexample
        defs = base_def + ['MODE=%d' % mode]
        rt = cbmc(VERIF + '/harness/c12_nm.c', args, defs, timeout=tmo, includes=inc, trace=True)
        v = trace_values(rt.out)
        dl, el = trace_int(v.get('cex_dl', '0')), trace_int(v.get('cex_el', '0'))
        d = trace_array(v, 'cex_d', LD)[:dl]
        e = trace_array(v, 'cex_e', LE)[:el]
        nat = replay(W, d, e)
        chk.replays_native += 1
        what = 'descriptors=%r event=%r real=%d scaffold=%d spec=%d' % (bytes(d).decode('latin1'), bytes(e).decode('latin1'),
                                                                        nat['real'], nat['scaffold'], nat['spec'])
        reproduced = ((mode == 1 and nat['wf'] and nat['real'] != nat['spec']) or
                      (mode == 2 and nat['real'] != nat['scaffold']) or
                      (mode == 3 and nat['wf'] and nat['scaffold'] != nat['spec']))
        if not reproduced:
            chk.infra_problem('SPURIOUS counterexample (does not reproduce natively): mode %d %s' % (mode, what))
            continue
        path = chk.write_replay('mode%d' % mode, {'mode': mode, 'descriptors_hex': hexs(d), 'event_hex': hexs(e), 'native': nat,
                                                 'how': 'c12_native replay <descriptors_hex> <event_hex>'})
        chk.violation('mode %d (%s): %s' % (mode, title, what), path)
    chk.samples += [{'query': 'mode1', 'harness': 'harness/c12_nm.c', 'symbolic': 'descriptor list <= %d bytes, event name <= %d bytes over %r' % (LD, LE, ALPHA)}]
    return chk.finish()


def do_replay(path):
    W = workdir('C12', clean=False)
    if not os.path.exists(W + '/c12_native'):
        chk = Check('C12', 'quick', 0)
        genc = build(chk, W)
        translation_validation(chk, W, genc, 0)
    r = json.load(open(path))
    nat = replay(W, bytes.fromhex(r['descriptors_hex']), bytes.fromhex(r['event_hex']))
    log('replay: descriptors=%r event=%r -> %s' % (bytes.fromhex(r['descriptors_hex']), bytes.fromhex(r['event_hex']), nat))
    mode = r['mode']
    bad = ((mode == 1 and nat['wf'] and nat['real'] != nat['spec']) or (mode == 2 and nat['real'] != nat['scaffold']) or
           (mode == 3 and nat['wf'] and nat['scaffold'] != nat['spec']))
    if bad:
        log('VIOLATION property=C12 replay=%s' % path)
        return 1
    return 0
