"""C08 -- interpreter engines (and, where the property has one, its emitted-C half): see engine/enginecheck.py."""
from common import *
import enginecheck


def run(tier, seed):
    chk = Check('C08', tier, seed)
    W = workdir('C08')
    enginecheck.run_engines(chk, 'C08', W, tier, seed + 8, 4)
    return chk.finish()


def do_replay(path):
    return enginecheck.do_replay('C08', path)
