"""C08 -- (a) dequeue discipline of the engines' step() (engine/enginecheck.py, tag T_DEQ) and of the emitted C (C04);
(b) the real BasicEventQueue, single-threaded: every sequence of NOPS operations over {enqueue(tag), non-blocking dequeue,
reset} (enumerated) with symbolic tags: FIFO order, exactly once, lock balance, consumer wake-up."""
import os, re
from common import *
import enginecheck


def queue_part(chk, W, tier):
    native_build(['lib/libuscxml.so'])
    clang_ir(REPO + '/src/uscxml/interpreter/BasicEventQueue.cpp', W + '/beq.ll')
    clang_ir(VERIF + '/harness/c08_queue.cpp', W + '/qh.ll')
    llvm_link([W + '/qh.ll', W + '/beq.ll'], W + '/qall.ll')
    ir2c(W + '/qall.ll', ['q_new', 'q_enqueue', 'q_dequeue', 'q_reset'], W + '/q.c',
         models=[VERIF + '/models/' + m for m in ('strmodels.txt', 'cxx.list', 'event.list', 'thread.list')],
         stubs=[r'^_ZN6uscxml15BasicEventQueue9serializeE', r'^_ZN6uscxml15BasicEventQueue11deserializeE', r'^_ZN6uscxml15BasicEventQueue6createE'])
    nops = 4 if tier == 'quick' else 5
    total = 3 ** nops
    chunk = 27
    native_compile([VERIF + '/harness/c08_queue_native.cpp'], W + '/q_native')
    nat = sh([W + '/q_native', str(nops)], env=lib_env(), check=False, timeout=120)
    m = re.search(r'native: sequences=(\d+) mismatches=(\d+)', nat.stdout)
    chk.tv_cases += int(m.group(1)) if m else 0
    args = ['--unwind', '90', '--object-bits', '12', '--max-field-sensitivity-array-size', '200', '--unwindset', 'IR_MEMSET.0:1500,IR_MEMMOVE.0:1500,IR_MEMMOVE.1:1500']
    jobs = [(a, min(a + chunk, total), False) for a in range(0, total, chunk)] + [(0, 3, True)]
    def job(j):
        a, b, wit = j
        return cbmc(VERIF + '/harness/c08_queue_main.c', args, ['QUEUE_C="%s/q.c"' % W, 'SEQ_FROM=%d' % a, 'SEQ_TO=%d' % b, 'NOPS=%d' % nops, 'SCAP=8', 'IR_POOL'] + (['WITNESS'] if wit else []),
                    includes=[VERIF + '/models'], timeout=600 if tier == 'quick' else 3600)
    res = pmap(job, jobs)
    wit = [r for j, r in zip(jobs, res) if j[2]][0]
    if wit.status != 'failed':
        chk.infra_problem('queue harness: reachability witness not violated (%s)' % wit.status)
    for j, r in zip(jobs, res):
        if j[2]: continue
        chk.query('queue/sequences %d..%d' % (j[0], j[1] - 1), r, bound='%d operations per sequence, tags symbolic' % nops, witness=wit)
        if r.status == 'success': continue
        if r.status != 'failed':
            chk.infra_problem('queue sequences %d..%d: no verdict (%s)' % (j[0], j[1] - 1, r.status)); continue
        props = sorted(set(d for n, d in r.failed))
        if any('unwinding' in d or 'BOUND' in d or 'INCONCLUSIVE' in d for d in props):
            chk.infra_problem('queue: inconclusive %s' % props[:3]); continue
        lockonly = all('lock' in d or 'wakes' in d for d in props)
        if (m and int(m.group(2)) > 0) or lockonly:
            path = chk.write_replay('queue_%d' % j[0], {'kind': 'queue', 'nops': nops, 'failed': props, 'native': nat.stdout[-800:]})
            chk.violation('BasicEventQueue, operation sequences %d..%d: %s%s' % (j[0], j[1] - 1, props[:3], '' if not lockonly else ' (lock discipline: decided on the lowered code, no native observable)'), path)
        else:
            chk.infra_problem('SPURIOUS queue counterexample (native run of all sequences passes): %s' % props[:3])
    chk.functions += ['uscxml::BasicEventQueue::enqueue / dequeue(0) / reset (BasicEventQueue.cpp, lowered from LLVM IR)']
    chk.assumptions += ['single thread: pthread mutex = depth counter, condition_variable::notify_all counted; blocking waits are not modelled (reaching one is inconclusive)',
                        'operation sequences enumerated (3^%d), event tags symbolic; uscxml::Event reduced to its name' % nops]
    chk.outside += ['producer/consumer interleavings, blocking dequeue, lost wake-ups, data races (threads are outside this technique)']


def run(tier, seed):
    chk = Check('C08', tier, seed)
    W = workdir('C08')
    queue_part(chk, W, tier)
    enginecheck.run_engines(chk, 'C08', W, tier, seed + 8, 4)
    return chk.finish()


def do_replay(path):
    import json
    r = json.load(open(path))
    if r.get('kind') == 'queue':
        W = workdir('C08_replay')
        native_build(['lib/libuscxml.so'])
        native_compile([VERIF + '/harness/c08_queue_native.cpp'], W + '/q_native')
        p = sh([W + '/q_native', str(r['nops'])], env=lib_env(), check=False)
        log(p.stdout)
        if p.returncode != 0:
            log('VIOLATION property=C08 replay=%s' % path); return 1
        return 0
    return enginecheck.do_replay('C08', path)
