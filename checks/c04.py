"""C04 -- the ANSI-C machine emitted by uscxml-transform -tc.
 (a) memory safety of uscxml_step and every emitted content function from arbitrary ctx bytes
 (b) behaviour of one uscxml_step call == reference model (uscxml's common conflict/done relation;
     the W3C relation is C01's reference and the differences are C01's findings)
"""
from common import *
import stepcheck


def run(tier, seed):
    chk = Check('C04', tier, seed)
    W = workdir('C04')
    native_build(['bin/uscxml-transform'])
    sr = stepcheck.StepRun(chk, W, tier)
    prepared = sr.prepare(sr.filter_known(stepcheck.documents(tier, seed), ('C04',)))
    tmo = 420 if tier == 'quick' else 3600
    queries = [dict(name='behaviour', mode=1, variant=1, witness=True), dict(name='memsafe', mode=3, variant=1)]
    sr.run(prepared, queries, tmo, 'C04')
    sr.known_finding_witnesses('C04', tmo)
    chk.functions += ['uscxml_step (emitted by ChartToC::writeFSM, this run\'s output of the freshly built uscxml-transform -tc)',
                      'every emitted *_on_entry / *_on_exit / *_on_trans / *_is_enabled function and the bit_* helpers',
                      'emitted state and transition tables with the sizing macros the generator emits']
    chk.bounds = {'chart_states_max': max([len(p[1].nodes) for p in prepared] + [0]), 'chart_transitions_max': max([len(p[1].trans) for p in prepared] + [0]),
                  'events_dequeued_per_call_max': stepcheck.KEV, 'steps': '1 (inductive: arbitrary legal pre-state incl. history, flags, invocations)',
                  'unwind': '40, dequeue back-edge KEV+3, with unwinding assertions'}
    chk.assumptions += [
        'pre-state: legal configuration, history consistent with what recording produces, flags in the reachable set (behaviour mode); arbitrary bytes (memory-safety mode)',
        'callback answers (is_matched per event and transition, is_true, failing executable content per block, queue lengths) are symbolic and stable within one call',
        'reference = spec/scxml_ref.h with uscxml\'s conflict relation (exit sets intersect OR sources ancestor-related) and uscxml\'s done.state rule; Appendix D itself is the reference of C01',
        'situations in which Appendix D would "enter" a state that was never exited are excluded from the comparison (ill-defined there); they are covered by C02 (legality)',
        'documents are enumerated (feature charts, seeded random charts, shapes of test/w3c and test/uscxml documents), everything else is decided by the solver']
    chk.outside += ['charts larger than the bound; datamodel content (the machine only sees callback answers)', 'more than %d events dequeued within one call' % stepcheck.KEV,
                    'the C scaffolding in test/src/test-gen-c.cpp other than its matcher (C12)', 'nested machines via <invoke><content>']
    chk.samples += [{'doc': p[1].name, 'kind': p[0], 'shape': p[1].describe()[:200]} for p in prepared[:10]]
    return chk.finish()


def do_replay(path):
    return_code = stepcheck.replay_file(path, workdir('C04', clean=False))
    if return_code:
        log('VIOLATION property=C04 replay=%s' % path)
    return return_code
