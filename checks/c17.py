"""C17 -- the Promela datamodel evaluates expressions with Promela/C integer semantics.
  (1) parse matrix   every operator pair `x op1 y op2 z` (both nestings, minimal and full parenthesisation), unary
                     operators in every position: text -> real flex/bison parser (native) -> AST; an AST that is not
                     the tree the text denotes under C precedence goes to the solver (2) which produces the values on
                     which the evaluation differs; ASTs that are the expected tree are covered compositionally by (2).
  (2) evaluation     the real PromelaDataModel::evaluateExpr/dataToInt/dataToBool/getVariable (IR -> ir2c -> C) on the
                     real parser's AST under CBMC, variable values symbolic (all 2^32 values each), against C semantics;
                     one query per operator and per sampled nested expression.  Expressions containing == != / % are
                     NOT solver-decided (no verdict in 900 s): native corner vectors only, listed separately.
  (3) statements     evaluateDecl/evaluateStmnt/setVariable/getVariable (array element and field read-back, assignment
                     sequences, ++/--, out-of-range indices): NOT solver-decided -- run natively on corner vectors only and
                     reported as such (evidence: native_only_statement_cases).
  Every failing query is replayed on the g++ build of the same code before it is reported; every case is also run
  natively on corner values (translation validation of the clang-IR route against the g++ build users run)."""
import os, re, json, random, itertools
from common import *
import pml

STMT_CASES = [
    # name, declarations, statements, reads, reference C body (v[] = a,b,c; fills vals[], *fault_at, *undef)
    ('array_write_read', 'int x[3]', ['x[a] = b'], ['x[c]'],
     'if (v[2] < 0 || v[2] > 2) *undef = 1; if (v[0] < 0 || v[0] > 2) *fault_at = 0; else vals[0] = (v[2] == v[0]) ? v[1] : 0;'),
    ('array_two_writes', 'int x[2]', ['x[0] = a', 'x[1] = b', 'x[c] = 7'], ['x[0]', 'x[1]'],
     'if (v[2] < 0 || v[2] > 1) *fault_at = 2; else { vals[0] = v[2] == 0 ? 7 : v[0]; vals[1] = v[2] == 1 ? 7 : v[1]; }'),
    ('array_read_index', 'int x[3]; int y', ['x[1] = a', 'y = x[b]'], ['y'],
     'if (v[1] < 0 || v[1] > 2) *fault_at = 1; else vals[0] = v[1] == 1 ? v[0] : 0;'),
    ('assign_sequence', 'int y; int z', ['y = a + 1', 'z = y - b', 'y = z'], ['y', 'z'],
     'long long y = (long long)v[0] + 1; long long z = y - v[1]; if (y > I_MAX || z > I_MAX || z < I_MIN) *undef = 1; else { vals[0] = (int)z; vals[1] = (int)z; }'),
    ('incr_decr', 'int y', ['y = a', 'y++', 'y++', 'y--'], ['y'],
     'if (v[0] > I_MAX - 2) *undef = 1; else vals[0] = v[0] + 1;'),
    ('field_write_read', 'int s', ['s.f = a', 's.g = b', 's.f = c'], ['s.f', 's.g'],
     'vals[0] = v[2]; vals[1] = v[1];'),
    ('decl_initialiser', 'int y = 5; int z = 2 + 3 * 4', ['y = y + a'], ['y', 'z'],
     'long long y = 5LL + v[0]; if (y > I_MAX || y < I_MIN) *undef = 1; else { vals[0] = (int)y; vals[1] = 14; }'),
]


def stmt_case(W, tag, name, decl, stmts, reads, body):
    lines = ['D ' + decl] + ['S ' + s for s in stmts] + ['E ' + r for r in reads]
    asts = pml.parse_all(lines, W)
    for ln, a in zip(lines, asts):
        if isinstance(a, tuple): raise InfraError('statement case %s: %r does not parse: %s' % (name, ln, a[1]))
    nodes, roots = [], []
    for a in asts:
        off = len(nodes); roots.append(off)
        nodes += [(t, v, [k + off for k in kids]) for t, v, kids in a]
    case_h = os.path.join(W, tag + '.h'); tab_h = os.path.join(W, tag + '_ast.h')
    open(tab_h, 'w').write('/* ASTs built by the real parser for: %s */\n' % ' ; '.join(lines) + pml.tables(nodes))
    with open(case_h, 'w') as f:
        f.write('/* %s */\n#define MODE 2\n#define NVARS 3\n#define DECL_ROOT %d\n#define NSTMT %d\n#define NREAD %d\n' % (' ; '.join(lines), roots[0], len(stmts), len(reads)))
        f.write('static const int STMT_ROOT[NSTMT] = {%s};\nstatic const int READ_ROOT[NREAD] = {%s};\n' % (', '.join(str(r) for r in roots[1:1 + len(stmts)]), ', '.join(str(r) for r in roots[1 + len(stmts):])))
        f.write('static void ref_run(const int* v, int* vals, int* fault_at, int* undef) {\n  for (int i = 0; i < NREAD; i++) vals[i] = 0;\n  %s\n}\n' % body)
    return case_h, tab_h


def run(tier, seed):
    chk = Check('C17', tier, seed)
    W = workdir('C17')
    tok = pml.token_values()
    rnd = random.Random(seed)
    quick = tier == 'quick'
    tmo = 400 if quick else 3000

    # ---------------- (1) parse matrix
    trees = pml.single_op_trees() + pml.pair_trees()
    n_rand = 60 if quick else 600
    while n_rand > 0:
        t = pml.random_tree(rnd, 3)
        if 3 <= pml.size(t) <= 9: trees.append(t); n_rand -= 1
    items = []
    for t in trees:
        for full in (False, True):
            items.append((t, full, pml.render(t, full)))
    asts = pml.parse_all(['E ' + x[2] for x in items], W)
    mismatches, parse_ok = [], []
    for (t, full, text), a in zip(items, asts):
        if isinstance(a, tuple) and a[0] == 'error':
            mismatches.append((t, full, text, None, 'parser rejects the expression: ' + a[1])); continue
        if pml.ast_tree(a) != pml.expected_ast(t, tok):
            mismatches.append((t, full, text, a, 'AST differs from the tree the text denotes'))
        else:
            parse_ok.append((t, full, text, a))
    log('parse matrix: %d texts, %d ASTs as expected, %d not' % (len(items), len(parse_ok), len(mismatches)))
    chk.extra['parse_matrix'] = {'texts': len(items), 'ast_as_expected': len(parse_ok), 'ast_unexpected': len(mismatches),
                                 'unexpected_examples': [m[2] + ' -- ' + m[4] for m in mismatches[:12]]}

    # ---------------- (2) evaluation cases
    cases = []   # (name, tree, text, ast nodes or None)
    seen = set()
    single = set(repr(t) for t in pml.single_op_trees())
    for t, full, text, a in parse_ok:
        if repr(t) in single and not full:
            cases.append(('op:' + text, t, text, a))
    nested = [x for x in parse_ok if repr(x[0]) not in single and pml.size(x[0]) >= 4]
    rnd.shuffle(nested)
    for t, full, text, a in nested[:(6 if quick else 80)]:
        cases.append(('nested:' + text, t, text, a))
    # unexpected ASTs: one representative per operator combination, the solver finds the distinguishing values
    for t, full, text, a, why in mismatches:
        ops = tuple(sorted(re.findall(r"'(?:b|u)', '([^']+)'", repr(t))))
        if a is None:
            key = ('reject',) + ops
            if key in seen: continue
            seen.add(key)
            path = chk.write_replay('reject_' + re.sub(r'\W+', '_', text), {'kind': 'parse-reject', 'text': text, 'why': why})
            finding_or_violation(chk, 'parse', ops, 'well-formed expression `%s` is rejected: %s' % (text, why), path)
            continue
        key = ('ast',) + ops
        if key in seen or len([k for k in seen if k[0] == 'ast']) >= (4 if quick else 40): continue
        seen.add(key)
        cases.append(('ast:' + text, t, text, a))

    def do_case(idx_case):
        idx, (name, t, text, a) = idx_case
        tag = 'e%03d' % idx
        try:
            case_h, tab_h = pml.expr_case(t, text, a, os.path.join(W, tag + '.h'))
            return run_case(chk, W, tag, name, text, case_h, tab_h, 1 + max([pml.VARS.index(x) for x in re.findall(r"\('v', '(\w)'\)", repr(t))] + [0]), tmo, t)
        except InfraError as e:
            chk.infra_problem('%s: %s' % (name, str(e)[-300:]))

    pmap(do_case, list(enumerate(cases)), jobs=max(2, NCPU - 4))

    # ---------------- (3) statements: native runs only (the solver did not reach a verdict on them in useful time:
    # every statement leaves a symbolic "error raised?" guard around all later heap updates), reported separately
    def do_stmt(idx_case):
        idx, (name, decl, stmts, reads, body) = idx_case
        tag = 's%02d' % idx
        try:
            case_h, tab_h = stmt_case(W, tag, name, decl, stmts, reads, body)
            exe = pml.native_exe(W, tag, case_h, tab_h)
            r2 = random.Random(idx)
            vecs = [tuple(r2.choice([-2147483648, -5, -1, 0, 1, 2, 3, 4, 7, 2147483647]) for _ in range(3)) for _ in range(40 if quick else 400)]
            for v in vecs:
                st, out = pml.native_run(exe, v, timeout=10)
                chk.tv_cases += 1
                if st in ('fail', 'crash', 'timeout'):
                    text = ' ; '.join([decl] + stmts + reads)
                    what = 'Promela datamodel on `%s` with (a,b,c)=%s: %s [%s]' % (text, v, out.replace('\n', ' | ')[:200], st)
                    path = chk.write_replay(tag + '_' + name, {'kind': 'stmt', 'text': text, 'values': list(v), 'tree': None, 'stmt_case': name, 'native': out})
                    finding_or_violation(chk, 'stmt', (name,), what, path)
                    return
            chk.extra.setdefault('native_only_statement_cases', []).append({'case': name, 'vectors': len(vecs), 'result': 'ok'})
        except InfraError as e:
            chk.infra_problem('stmt %s: %s' % (name, str(e)[-300:]))

    pmap(do_stmt, list(enumerate(STMT_CASES)), jobs=max(2, NCPU // 2))

    for f in known_findings('C17'):
        if f['id'] not in chk.extra.get('known_hit', []):
            log('note: known finding %s was not reproduced on this run' % f['id'])
    chk.functions += ['PromelaDataModel::evaluateExpr(void*), evaluateStmnt(void*), evaluateDecl(void*), setVariable, getVariable, dataToInt, dataToBool '
                      '(src/uscxml/plugins/datamodel/promela/PromelaDataModel.cpp: clang++-14 -O1 -fno-inline IR -> ir2c -> C -> cbmc)',
                      'uscxml::Data (constructors, operator==/</[] from Data.h), std::map<std::string,Data>, std::list<Data>, std::list<PromelaParserNode*> as instantiated in that TU',
                      'PromelaParser (promela.tab.cpp / promela.lex.yy.cpp, g++ build, run natively on every generated text; its ASTs are the harness input)']
    chk.bounds = {'variables': 'a, b, c: every 32-bit value each (symbolic)', 'expression_size': 'single operators, all operator pairs, random trees of depth <= 3 (<= 9 nodes)',
                  'unwind': 'max(12, AST nodes + 2); string loops 70', 'string_capacity': 64}
    chk.assumptions += ['toStr<integral>/strTo<integral> replaced by the numeric-atom ADT (models/pml.c): decimal text of an int <-> the int; compare()/== of two numeric atoms compares the ints',
                        '32-bit symbolic * / % are uninterpreted functions in both the evaluator and the reference (-DIR_UF_ARITH); fault conditions stay explicit; spurious counterexamples are filtered by the native replay',
                        'inputs on which C leaves the reference undefined (signed overflow of + - * unary-, shift count outside 0..31, left shift of a negative value or out of range) are outside the claim',
                        'a fault in an operand that C short-circuit evaluation skips may be reported or skipped',
                        'uscxml::Event modelled by its name (models/event.c); error texts are not compared', 'no malloc failure',
                        'well-typed means: arithmetic and comparison operators take int operands, && || ! take boolean or int operands, == != take two ints or two booleans']
    chk.outside += ['flex/bison parser under the solver (it runs natively on each enumerated text)', 'declarations, assignments, ++/--, array and field read-back under the solver (native corner runs only)', 'expressions containing == != / % under the solver (native corner vectors only: 12 corner values per variable, 300/3000 vectors per expression)', 'string-valued expressions, _event fields, mtype, typedef/struct declarations, bit operators (not evaluated by the datamodel)',
                    'PromelaDataModel::setEvent / assign / init entry points with DOM or JSON payloads', 'expressions deeper than the bound']
    return chk.finish()


def finding_match(f, kind, ops, text=None):
    if f.get('kind') != kind: return False
    want = f.get('ops')
    return want is None or set(want) <= set(ops)


def finding_or_violation(chk, kind, ops, what, path):
    for f in known_findings('C17'):
        if finding_match(f, kind, ops):
            chk.extra.setdefault('known_hit', []).append(f['id'])
            if f['id'] not in [k.split(' ')[0] for k in chk.known_seen]:
                chk.known('%s %s (e.g. %s)' % (f['id'], f['what'], what))
            return
    chk.violation(what, path)


def classify(t, name):
    """(kind, ops) used to match known findings."""
    if t is None: return 'stmt', (name,)
    ops = tuple(sorted(set(re.findall(r"'(?:b|u)', '([^']+)'", repr(t)))))
    return ('parse' if name.startswith('ast:') else 'eval'), ops


NATIVE_ONLY_OPS = ('==', '!=', '/', '%')


def run_case(chk, W, tag, name, text, case_h, tab_h, nvars, tmo, tree):
    exe = pml.native_exe(W, tag, case_h, tab_h)
    kind, ops = classify(tree, name)
    solver = not any(o in NATIVE_ONLY_OPS for o in ops)
    # translation validation / native corner run
    rnd = random.Random(sum(ord(c) * (i + 1) for i, c in enumerate(text)) & 0xffff)
    nvec = 24 if solver else (300 if chk.tier == 'quick' else 3000)
    vecs = [tuple(rnd.choice(pml.CORNERS) for _ in range(nvars)) for _ in range(nvec)] + [tuple([0] * nvars), tuple([1] * nvars), (1, 0, 0)[:nvars], (2, 3, 0)[:nvars]]
    native_bad = None
    for v in vecs:
        st, out = pml.native_run(exe, v)
        chk.tv_cases += 1
        if st in ('fail', 'crash', 'timeout'):
            native_bad = (v, st, out); break
    if not solver:
        # == != / % : the evaluator branches on the symbolic operands around heap allocations (early `return Data(true)`,
        # error event construction); CBMC gave no verdict within 900 s.  Native corner vectors only, reported as such.
        with chk._lock:
            chk.extra.setdefault('native_only_expression_cases', []).append({'text': text, 'vectors': len(vecs), 'result': 'ok' if not native_bad else native_bad[1]})
        if native_bad:
            v, st, out = native_bad
            what = 'Promela datamodel on `%s` with (a,b,c)=%s: %s [%s]' % (text, v, out.replace('\n', ' | ')[:200], st)
            path = chk.write_replay(tag + '_' + re.sub(r'\W+', '_', text)[:40], {'kind': kind, 'text': text, 'values': list(v), 'tree': repr(tree), 'stmt_case': None, 'native': out, 'failed': ['native run']})
            finding_or_violation(chk, kind, ops, what, path)
        return 'native-only'
    genc = pml.lower(W, tag, tab_h)
    unwind = max(12, int(re.search(r'#define NNODES (\d+)', open(tab_h).read()).group(1)) + 2)
    r = pml.query(genc, case_h, timeout=tmo, unwind=unwind)
    w = pml.query(genc, case_h, witness=True, timeout=tmo, unwind=unwind)
    chk.query(name, r, bound='a,b,c over all 32-bit values', witness=w)
    if w.status != 'failed':
        chk.infra_problem('%s: reachability witness not violated (%s)' % (name, w.status))
    cex = None
    if r.status == 'failed':
        real = sorted(set(d for n, d in r.failed if d.startswith('C17') or 'division by zero' in d or 'overflow' in d or 'shift' in d or 'pointer' in d or 'dereference' in d))
        other = sorted(set(d for n, d in r.failed) - set(real))
        if not real:
            chk.infra_problem('%s: inconclusive, only non-property assertions failed: %s' % (name, other[:3]))
        else:
            rt = pml.query(genc, case_h, timeout=tmo, trace=True, unwind=unwind)
            got = {}
            for m in re.finditer(r'^\s+v\[(\d+)l?\]=(-?\d+)', rt.out, re.M):      # first assignments: main's input vector
                got.setdefault(int(m.group(1)), int(m.group(2)))
            v = tuple(got.get(i, 0) for i in range(nvars))
            st, out = pml.native_run(exe, v)
            chk.replays_native += 1
            if st in ('fail', 'crash', 'timeout'):
                cex = (v, st, out, real)
            else:
                chk.infra_problem('%s: counterexample %s (%s) does not reproduce on the g++ build (%s): spurious under the uninterpreted-function abstraction or a translation difference' % (name, v, real[:2], st))
    elif r.status != 'success':
        chk.infra_problem('%s: no verdict (%s)' % (name, r.status))
    bad = cex or (native_bad + (['native run'],) if native_bad else None)
    if bad:
        v, st, out, why = bad
        what = 'Promela datamodel on `%s` with (a,b,c)=%s: %s [%s]' % (text, v, out.replace('\n', ' | ')[:200], st)
        path = chk.write_replay(tag + '_' + re.sub(r'\W+', '_', text)[:40], {'kind': kind, 'text': text, 'values': list(v), 'tree': repr(tree) if tree else None,
                                                                             'stmt_case': name[5:] if tree is None else None, 'native': out, 'failed': why[:4]})
        finding_or_violation(chk, kind, ops, what, path)
    return r.status


def do_replay(path):
    r = json.load(open(path))
    if r.get('kind') == 'parse-reject':
        W = workdir('C17_replay')
        a = pml.parse_all(['E ' + r['text']], W)[0]
        if isinstance(a, tuple):
            log('parser rejects `%s`: %s' % (r['text'], a[1])); log('VIOLATION property=C17 replay=%s' % path); return 1
        return 0
    W = workdir('C17_replay')
    # regenerate from the current tree: parse the text again with the current parser, rebuild the case
    if r.get('stmt_case'):
        c = [x for x in STMT_CASES if x[0] == r['stmt_case']][0]
        case_h, tab_h = stmt_case(W, 'replay', *c)
    else:
        t = eval(r['tree'])
        a = pml.parse_all(['E ' + r['text']], W)[0]
        if isinstance(a, tuple):
            log('parser rejects `%s`: %s' % (r['text'], a[1])); log('VIOLATION property=C17 replay=%s' % path); return 1
        case_h, tab_h = pml.expr_case(t, r['text'], a, os.path.join(W, 'replay.h'))
    exe = pml.native_exe(W, 'replay', case_h, tab_h)
    st, out = pml.native_run(exe, r['values'])
    log('%s on %s: %s\n%s' % (r['text'], r['values'], st, out))
    if st in ('fail', 'crash', 'timeout'):
        log('VIOLATION property=C17 replay=%s' % path); return 1
    return 0
