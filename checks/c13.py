"""C13 -- interpreter engines (and, where the property has one, its emitted-C half): see engine/enginecheck.py."""
from common import *
import enginecheck


def run(tier, seed):
    chk = Check('C13', tier, seed)
    W = workdir('C13')
    enginecheck.run_engines(chk, 'C13', W, tier, seed + 13, 32)
    return chk.finish()


def do_replay(path):
    return enginecheck.do_replay('C13', path)
