"""C11 -- interpreter engines (and, where the property has one, its emitted-C half): see engine/enginecheck.py."""
from common import *
import enginecheck


def run(tier, seed):
    chk = Check('C11', tier, seed)
    W = workdir('C11')
    enginecheck.run_engines(chk, 'C11', W, tier, seed + 11, 16)
    return chk.finish()


def do_replay(path):
    return enginecheck.do_replay('C11', path)
