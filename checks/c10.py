"""C10 -- interpreter engines (and, where the property has one, its emitted-C half): see engine/enginecheck.py."""
from common import *
import enginecheck


def run(tier, seed):
    chk = Check('C10', tier, seed)
    W = workdir('C10')
    enginecheck.run_engines(chk, 'C10', W, tier, seed + 10, 8)
    return chk.finish()


def do_replay(path):
    return enginecheck.do_replay('C10', path)
